//! E1: boundary-biased generators. Every value comes with a coarse class label.
#![allow(dead_code)]

use crate::util::Rng;

pub const EDGES: [u64; 24] = [
    0,
    1,
    0xfff,
    0x1000,
    0x1f_ffff,
    0x20_0000,
    0x3fff_ffff,
    0x4000_0000,
    0x7f_ffff_ffff,
    0x80_0000_0000,
    0x7fff_ffff_ffff,
    0x8000_0000_0000,
    0xffff_ffff_ffff,
    0x1_0000_0000_0000,
    0xf_ffff_ffff_ffff,
    0x10_0000_0000_0000,
    0x7fff_ffff_ffff_ffff,
    0x8000_0000_0000_0000,
    0xffff_7fff_ffff_ffff,
    0xffff_8000_0000_0000,
    0xffff_ffff_ffff_f000,
    0xffff_ffff_ffe0_0000,
    0xffff_ffff_c000_0000,
    0xffff_ffff_ffff_ffff,
];

pub fn sign_extend48(x: u64) -> u64 {
    let x = x & 0xffff_ffff_ffff;
    if x & (1 << 47) != 0 {
        x | 0xffff_0000_0000_0000
    } else {
        x
    }
}

pub fn is_canonical(x: u64) -> bool {
    let top = x >> 47;
    top == 0 || top == 0x1ffff
}

/// boundary-biased u64; returns (value, class)
pub fn u64_edge(r: &mut Rng) -> (u64, &'static str) {
    match r.below(16) {
        0 => (1u64 << r.below(64), "pow2"),
        1 => ((1u64 << r.below(64)).wrapping_sub(1 + r.below(3)), "pow2-d"),
        2 => ((1u64 << r.below(64)).wrapping_add(r.below(4097)), "pow2+d"),
        3 => (!(1u64 << r.below(64)), "walk0"),
        4 | 5 => {
            let e = *r.pick(&EDGES);
            (e, "edge")
        }
        6 | 7 => {
            let e = *r.pick(&EDGES);
            (e.wrapping_add(r.below(4100)), "edge+d")
        }
        8 | 9 => {
            let e = *r.pick(&EDGES);
            (e.wrapping_sub(r.below(4100)), "edge-d")
        }
        10 => (sign_extend48(r.next()), "canon-rand"),
        11 => (r.next() & 0xf_ffff_ffff_ffff, "phys-rand"),
        12 => (r.next() >> r.below(64), "rand-short"),
        13 => (r.below(0x2000), "small"),
        _ => (r.next(), "rand"),
    }
}

/// canonical virtual address, boundary biased
pub fn canon(r: &mut Rng) -> (u64, &'static str) {
    loop {
        let (v, c) = u64_edge(r);
        if is_canonical(v) {
            return (v, c);
        }
        if r.chance(1, 2) {
            return (sign_extend48(v), "sx");
        }
    }
}

/// valid physical address (< 2^52), boundary biased
pub fn phys(r: &mut Rng) -> (u64, &'static str) {
    loop {
        let (v, c) = u64_edge(r);
        if v < (1 << 52) {
            return (v, c);
        }
        if r.chance(1, 2) {
            return (v & 0xf_ffff_ffff_ffff, "mask52");
        }
    }
}

pub fn half(x: u64) -> &'static str {
    if x >> 47 == 0 {
        "lo"
    } else if x >> 47 == 0x1ffff {
        "hi"
    } else {
        "gap"
    }
}

/// usize-ish counts for stepping
pub fn count(r: &mut Rng, dist_hint: u64) -> (u64, &'static str) {
    match r.below(12) {
        0 => (0, "0"),
        1 => (1, "1"),
        2 => (dist_hint, "dist"),
        3 => (dist_hint.wrapping_sub(1), "dist-1"),
        4 => (dist_hint.wrapping_add(1), "dist+1"),
        5 => (*r.pick(&[1u64 << 47, (1 << 48) - 1, 1 << 48, (1 << 48) + 1, u64::MAX, u64::MAX - 1, 1 << 52, 1<<36, (1<<36)-1, (1<<36)+1, 1<<27, 1<<18, (1<<43), (1<<34)]), "big"),
        6 => (r.below(0x3000), "small"),
        7 => (r.next() >> r.below(64), "rand-short"),
        8 => (r.next() & 0xffff_ffff_ffff, "rand48"),
        _ => {
            let (v, _) = u64_edge(r);
            (v, "edge")
        }
    }
}

pub const IDX_UNIVERSE: [u16; 8] = [0, 1, 2, 255, 256, 257, 510, 511];
