//! Common infrastructure: PRNG, JSON writer, report, panic catching.
#![allow(dead_code)]

use std::collections::{BTreeMap, BTreeSet};
use std::fmt::Write as _;
use std::panic::{self, AssertUnwindSafe};

// ---------------------------------------------------------------------------------------------
// PRNG: xoshiro256** seeded through SplitMix64
// ---------------------------------------------------------------------------------------------

#[derive(Clone, Debug)]
pub struct Rng {
    s: [u64; 4],
}

pub fn splitmix(x: &mut u64) -> u64 {
    *x = x.wrapping_add(0x9e37_79b9_7f4a_7c15);
    let mut z = *x;
    z = (z ^ (z >> 30)).wrapping_mul(0xbf58_476d_1ce4_e5b9);
    z = (z ^ (z >> 27)).wrapping_mul(0x94d0_49bb_1331_11eb);
    z ^ (z >> 31)
}

impl Rng {
    pub fn new(seed: u64) -> Rng {
        let mut x = seed;
        let s = [
            splitmix(&mut x),
            splitmix(&mut x),
            splitmix(&mut x),
            splitmix(&mut x),
        ];
        Rng { s }
    }
    /// derive an independent stream from (seed, tag, shard)
    pub fn derive(seed: u64, tag: &str, shard: u64) -> Rng {
        let mut h: u64 = 0xcbf2_9ce4_8422_2325;
        for b in tag.bytes() {
            h ^= b as u64;
            h = h.wrapping_mul(0x1000_0000_01b3);
        }
        Rng::new(seed ^ h.rotate_left(17) ^ shard.wrapping_mul(0xd6e8_feb8_6659_fd93))
    }
    #[inline]
    pub fn next(&mut self) -> u64 {
        let r = self.s[1].wrapping_mul(5).rotate_left(7).wrapping_mul(9);
        let t = self.s[1] << 17;
        self.s[2] ^= self.s[0];
        self.s[3] ^= self.s[1];
        self.s[1] ^= self.s[2];
        self.s[0] ^= self.s[3];
        self.s[2] ^= t;
        self.s[3] = self.s[3].rotate_left(45);
        r
    }
    #[inline]
    pub fn below(&mut self, n: u64) -> u64 {
        if n == 0 {
            return 0;
        }
        ((self.next() as u128 * n as u128) >> 64) as u64
    }
    #[inline]
    pub fn range(&mut self, lo: u64, hi_incl: u64) -> u64 {
        lo.wrapping_add(self.below(hi_incl.wrapping_sub(lo).wrapping_add(1)))
    }
    #[inline]
    pub fn chance(&mut self, num: u64, den: u64) -> bool {
        self.below(den) < num
    }
    #[inline]
    pub fn pick<'a, T>(&mut self, xs: &'a [T]) -> &'a T {
        &xs[self.below(xs.len() as u64) as usize]
    }
    pub fn state(&self) -> [u64; 4] {
        self.s
    }
}

// ---------------------------------------------------------------------------------------------
// Minimal JSON value + writer
// ---------------------------------------------------------------------------------------------

#[derive(Clone, Debug)]
pub enum J {
    Null,
    Bool(bool),
    U(u64),
    I(i64),
    F(f64),
    S(String),
    A(Vec<J>),
    O(Vec<(String, J)>),
}

impl J {
    pub fn s(x: impl Into<String>) -> J {
        J::S(x.into())
    }
    pub fn hex(x: u64) -> J {
        J::S(format!("{:#x}", x))
    }
    pub fn obj(kv: Vec<(&str, J)>) -> J {
        J::O(kv.into_iter().map(|(k, v)| (k.to_string(), v)).collect())
    }
    pub fn write(&self, out: &mut String) {
        match self {
            J::Null => out.push_str("null"),
            J::Bool(b) => out.push_str(if *b { "true" } else { "false" }),
            J::U(u) => {
                let _ = write!(out, "{}", u);
            }
            J::I(i) => {
                let _ = write!(out, "{}", i);
            }
            J::F(f) => {
                if f.is_finite() {
                    let _ = write!(out, "{}", f);
                } else {
                    out.push_str("null");
                }
            }
            J::S(s) => {
                out.push('"');
                for c in s.chars() {
                    match c {
                        '"' => out.push_str("\\\""),
                        '\\' => out.push_str("\\\\"),
                        '\n' => out.push_str("\\n"),
                        '\r' => out.push_str("\\r"),
                        '\t' => out.push_str("\\t"),
                        c if (c as u32) < 0x20 => {
                            let _ = write!(out, "\\u{:04x}", c as u32);
                        }
                        c => out.push(c),
                    }
                }
                out.push('"');
            }
            J::A(a) => {
                out.push('[');
                for (i, x) in a.iter().enumerate() {
                    if i > 0 {
                        out.push(',');
                    }
                    x.write(out);
                }
                out.push(']');
            }
            J::O(o) => {
                out.push('{');
                for (i, (k, v)) in o.iter().enumerate() {
                    if i > 0 {
                        out.push(',');
                    }
                    J::S(k.clone()).write(out);
                    out.push(':');
                    v.write(out);
                }
                out.push('}');
            }
        }
    }
    pub fn to_string(&self) -> String {
        let mut s = String::new();
        self.write(&mut s);
        s
    }
}

// ---------------------------------------------------------------------------------------------
// Report
// ---------------------------------------------------------------------------------------------

pub struct Violation {
    pub prop: String,
    pub sig: String,
    pub detail: J,
}

pub struct Report {
    pub prop: String,
    pub profile: &'static str,
    pub evaluations: u64,
    pub classes: BTreeSet<String>,
    pub samples: Vec<J>,
    pub violations: Vec<Violation>,
    pub viol_counts: BTreeMap<String, u64>,
    pub counters: BTreeMap<String, u64>,
    pub exhaustive: Vec<String>,
    pub notes: Vec<String>,
    pub max_samples: usize,
    pub max_viol_per_sig: u64,
    pub inconclusive: Option<String>,
}

pub fn profile_name() -> &'static str {
    if cfg!(target_pointer_width = "32") {
        "debug-32bit"
    } else if cfg!(debug_assertions) {
        "debug"
    } else {
        "release"
    }
}

impl Report {
    pub fn new(prop: &str) -> Report {
        Report {
            prop: prop.to_string(),
            profile: profile_name(),
            evaluations: 0,
            classes: BTreeSet::new(),
            samples: Vec::new(),
            violations: Vec::new(),
            viol_counts: BTreeMap::new(),
            counters: BTreeMap::new(),
            exhaustive: Vec::new(),
            notes: Vec::new(),
            max_samples: 6,
            max_viol_per_sig: 2,
            inconclusive: None,
        }
    }
    #[inline]
    pub fn eval(&mut self) {
        self.evaluations += 1;
    }
    #[inline]
    pub fn evals(&mut self, n: u64) {
        self.evaluations += n;
    }
    pub fn class(&mut self, c: &str) {
        if !self.classes.contains(c) {
            self.classes.insert(c.to_string());
        }
    }
    pub fn count(&mut self, k: &str, n: u64) {
        if let Some(v) = self.counters.get_mut(k) {
            *v += n;
        } else {
            self.counters.insert(k.to_string(), n);
        }
    }
    pub fn sample(&mut self, j: J) {
        if self.samples.len() < self.max_samples {
            self.samples.push(j);
        }
    }
    pub fn want_sample(&self) -> bool {
        self.samples.len() < self.max_samples
    }
    /// record a violation of `prop` (usually self.prop) with a stable signature
    pub fn violation_for(&mut self, prop: &str, sig: &str, detail: J) {
        let full = format!("{}|{}", prop, sig);
        let c = self.viol_counts.entry(full.clone()).or_insert(0);
        *c += 1;
        if *c <= self.max_viol_per_sig {
            self.violations.push(Violation {
                prop: prop.to_string(),
                sig: full,
                detail,
            });
        }
        // Under the interpreter every recorded violation costs milliseconds; a tree on which most cases fail would run into
        // the watchdog (inconclusive) although hundreds of violations are in hand. Enough is enough: write the report, stop.
        if cfg!(miri) && self.viol_counts.values().sum::<u64>() >= 300 {
            self.notes.push("stopped early: 300 violations recorded under the interpreter".into());
            let e = emergency();
            let wall = e.t0.map(|t| t.elapsed().as_secs_f64()).unwrap_or(0.0);
            let js = self.to_json(e.seed, e.shard, wall).to_string();
            match &e.out {
                Some(p) => {
                    let _ = std::fs::write(p, js);
                }
                None => println!("{}", js),
            }
            std::process::exit(1);
        }
    }
    pub fn violation(&mut self, sig: &str, detail: J) {
        let p = self.prop.clone();
        self.violation_for(&p, sig, detail);
    }
    pub fn to_json(&self, seed: u64, shard: u64, wall_s: f64) -> J {
        J::obj(vec![
            ("property_id", J::s(self.prop.clone())),
            ("profile", J::s(self.profile)),
            ("seed", J::U(seed)),
            ("shard", J::U(shard)),
            ("wall_s", J::F(wall_s)),
            ("evaluations", J::U(self.evaluations)),
            (
                "classes",
                J::A(self.classes.iter().map(|c| J::s(c.clone())).collect()),
            ),
            ("samples", J::A(self.samples.clone())),
            (
                "violations",
                J::A(self
                    .violations
                    .iter()
                    .map(|v| {
                        J::obj(vec![
                            ("property", J::s(v.prop.clone())),
                            ("sig", J::s(v.sig.clone())),
                            ("detail", v.detail.clone()),
                        ])
                    })
                    .collect()),
            ),
            (
                "violation_counts",
                J::O(self
                    .viol_counts
                    .iter()
                    .map(|(k, v)| (k.clone(), J::U(*v)))
                    .collect()),
            ),
            (
                "counters",
                J::O(self
                    .counters
                    .iter()
                    .map(|(k, v)| (k.clone(), J::U(*v)))
                    .collect()),
            ),
            (
                "exhaustive",
                J::A(self.exhaustive.iter().map(|c| J::s(c.clone())).collect()),
            ),
            (
                "notes",
                J::A(self.notes.iter().map(|c| J::s(c.clone())).collect()),
            ),
            (
                "inconclusive",
                match &self.inconclusive {
                    Some(s) => J::s(s.clone()),
                    None => J::Null,
                },
            ),
        ])
    }
}

// ---------------------------------------------------------------------------------------------
// Panic catching
// ---------------------------------------------------------------------------------------------

pub fn silence_panics() {
    panic::set_hook(Box::new(|_| {}));
}

/// Runs `f`, returns Err(()) when it panicked.
#[inline]
pub fn catch<T>(f: impl FnOnce() -> T) -> Result<T, ()> {
    panic::catch_unwind(AssertUnwindSafe(f)).map_err(|_| ())
}

/// Runs `f`, returns Err(message) when it panicked.
pub fn catch_msg<T>(f: impl FnOnce() -> T) -> Result<T, String> {
    panic::catch_unwind(AssertUnwindSafe(f)).map_err(|e| {
        if let Some(s) = e.downcast_ref::<&str>() {
            s.to_string()
        } else if let Some(s) = e.downcast_ref::<String>() {
            s.clone()
        } else {
            "<non-string panic>".to_string()
        }
    })
}

pub struct Args {
    pub prop: String,
    pub tier: String,
    pub seed: u64,
    pub shard: u64,
    pub nshards: u64,
    pub out: Option<String>,
    pub scale: f64,
    pub extra: BTreeMap<String, String>,
}

impl Args {
    pub fn thorough(&self) -> bool {
        self.tier == "thorough"
    }
    /// budget: `q` iterations in quick tier, `t` in thorough tier (per whole run, divided by shards)
    pub fn budget(&self, q: u64, t: u64) -> u64 {
        let b = if self.thorough() { t } else { q };
        let b = (b as f64 * self.scale) as u64;
        (b / self.nshards.max(1)).max(1)
    }
    /// stride of the otherwise exhaustive sweeps: 1 natively; under Miri (about four orders of magnitude slower) every
    /// `sweep`-th element starting at a seed-dependent offset, and the sub-space is then not listed as exhaustive
    pub fn sweep(&self) -> (usize, usize) {
        if cfg!(miri) {
            let st = self.get_u64("sweep", 61).max(1) as usize;
            ((self.seed as usize + 17 * self.shard as usize) % st, st)
        } else {
            (0, 1)
        }
    }
    pub fn get(&self, k: &str) -> Option<&str> {
        self.extra.get(k).map(|s| s.as_str())
    }
    pub fn get_u64(&self, k: &str, d: u64) -> u64 {
        self.get(k)
            .and_then(|s| {
                if let Some(h) = s.strip_prefix("0x") {
                    u64::from_str_radix(h, 16).ok()
                } else {
                    s.parse().ok()
                }
            })
            .unwrap_or(d)
    }
}

// ---------------------------------------------------------------------------------------------
// Emergency exit from a fatal signal: the report gathered so far is written out with one more violation
// (when a monitor declared what an unexpected fault would mean) or as inconclusive.
// ---------------------------------------------------------------------------------------------

pub struct Emergency {
    pub report: *mut Report,
    pub out: Option<String>,
    pub seed: u64,
    pub shard: u64,
    /// (property, signature, detail) to record if a fatal fault happens now; None = inconclusive
    pub attribution: Option<(String, String, J)>,
    /// optional filter on the faulting instruction bytes: the attribution only applies when it returns true
    pub attribution_filter: Option<fn(&[u8]) -> bool>,
    pub t0: Option<std::time::Instant>,
}

pub static mut EMERGENCY_STATE: Emergency = Emergency { report: core::ptr::null_mut(), out: None, seed: 0, shard: 0, attribution: None, attribution_filter: None, t0: None };

#[allow(static_mut_refs)]
pub fn emergency() -> &'static mut Emergency {
    unsafe { &mut EMERGENCY_STATE }
}

/// declare what a fatal fault during the following code would mean
pub fn fault_means(prop: &str, sig: String, detail: J) {
    emergency().attribution = Some((prop.to_string(), sig, detail));
}
pub fn fault_means_nothing() {
    emergency().attribution = None;
    emergency().attribution_filter = None;
}
/// like `fault_means`, but only for faults whose instruction bytes satisfy `filter`
pub fn fault_means_if(prop: &str, sig: String, detail: J, filter: fn(&[u8]) -> bool) {
    emergency().attribution = Some((prop.to_string(), sig, detail));
    emergency().attribution_filter = Some(filter);
}

pub fn emergency_exit(sig: i32, addr: u64, rip: u64, bytes: &[u8]) -> ! {
    let e = emergency();
    let code;
    if e.report.is_null() {
        eprintln!("INCONCLUSIVE fatal signal {} addr={:#x} rip={:#x} before the report existed", sig, addr, rip);
        unsafe { libc::_exit(2) };
    }
    let rep = unsafe { &mut *e.report };
    // Where did the fault happen? Only a fault inside the code of the crate under test may be blamed on it; a fault in
    // the harness itself is a harness problem (inconclusive), never a violation.
    let bt = std::backtrace::Backtrace::force_capture().to_string();
    let mut in_crate = false;
    let mut decided = false;
    let mut past_handler = false;
    let mut first_frames: Vec<String> = Vec::new();
    for line in bt.lines() {
        let l = line.trim();
        if !l.contains(": ") || l.starts_with("at ") {
            continue;
        }
        if !past_handler {
            if l.contains("trapemu") && l.contains("handler") {
                past_handler = true;
            }
            continue;
        }
        if first_frames.len() < 6 {
            first_frames.push(l.to_string());
        }
        if !decided {
            // "N: <path::to::function<generics>>": the leading path says whose code the frame is
            let sym = l.splitn(2, ": ").nth(1).unwrap_or("").trim_start_matches('<');
            if sym.starts_with("x86_64::") {
                in_crate = true;
                decided = true;
            } else if sym.starts_with("vx::") {
                decided = true;
            }
        }
    }
    let applies = in_crate
        && match e.attribution_filter {
            Some(f) => f(bytes),
            None => true,
        };
    // a filtered attribution (e.g. an in/out instruction executed outside its call) is about the instruction itself
    let applies = applies || (e.attribution_filter.map(|f| f(bytes)).unwrap_or(false));
    let fault = J::obj(vec![("signal", J::I(sig as i64)), ("fault_address", J::hex(addr)), ("rip", J::hex(rip)), ("code_bytes", J::s(format!("{:02x?}", bytes))), ("innermost_frames", J::A(first_frames.iter().map(|f| J::s(f.clone())).collect()))]);
    let attr = if applies { e.attribution.take() } else { None };
    match attr {
        Some((prop, sig_s, detail)) => {
            rep.violation_for(&prop, &sig_s, J::obj(vec![("fault", fault), ("context", detail)]));
            code = 1;
        }
        None => {
            rep.inconclusive = Some(format!("fatal signal {} at rip={:#x} addr={:#x} bytes={:02x?} frames={:?}", sig, rip, addr, bytes, first_frames));
            code = 2;
        }
    }
    let wall = e.t0.map(|t| t.elapsed().as_secs_f64()).unwrap_or(0.0);
    let js = rep.to_json(e.seed, e.shard, wall).to_string();
    match &e.out {
        Some(p) => {
            let _ = std::fs::write(p, js);
        }
        None => println!("{}", js),
    }
    unsafe { libc::_exit(code) };
}

// ---------------------------------------------------------------------------------------------
// sentinels around inline asm
// ---------------------------------------------------------------------------------------------

/// Thirteen values are kept live (in registers, in an optimised build) across the wrapper, whose asm must declare every
/// register the instruction writes: an undeclared clobber shows up as a changed value. The trap monitor writes the
/// instruction's architectural outputs (EAX/EDX for rdmsr and xgetbv, the destination of mov from crN/drN ...) into the
/// interrupted context, exactly as the hardware would.
#[inline(never)]
pub fn under_register_pressure<R>(seed: u64, f: impl FnOnce() -> R) -> (u64, R) {
    use core::hint::black_box as bb;
    let (a0, a1, a2, a3, a4, a5, a6) = (bb(seed), bb(seed.wrapping_mul(3)), bb(seed.wrapping_mul(5)), bb(seed.wrapping_mul(7)), bb(seed.wrapping_mul(11)), bb(seed.wrapping_mul(13)), bb(seed.wrapping_mul(17)));
    let (a7, a8, a9, a10, a11, a12) = (bb(seed.wrapping_mul(19)), bb(seed.wrapping_mul(23)), bb(seed.wrapping_mul(29)), bb(seed.wrapping_mul(31)), bb(seed.wrapping_mul(37)), bb(seed.wrapping_mul(41)));
    let r = f();
    let sum = bb(a0) ^ bb(a1).rotate_left(1) ^ bb(a2).rotate_left(2) ^ bb(a3).rotate_left(3) ^ bb(a4).rotate_left(4) ^ bb(a5).rotate_left(5) ^ bb(a6).rotate_left(6) ^ bb(a7).rotate_left(7) ^ bb(a8).rotate_left(8) ^ bb(a9).rotate_left(9) ^ bb(a10).rotate_left(10) ^ bb(a11).rotate_left(11) ^ bb(a12).rotate_left(12);
    (sum, r)
}

pub fn pressure_expected(seed: u64) -> u64 {
    let m = [1u64, 3, 5, 7, 11, 13, 17, 19, 23, 29, 31, 37, 41];
    m.iter().enumerate().fold(0u64, |a, (i, &k)| a ^ seed.wrapping_mul(k).rotate_left(i as u32))
}

