//! E5: software MMU for RecursivePageTable.
//!
//! The 512 GiB region of a lower-half recursive index R is reserved PROT_NONE. When the real mapper code
//! dereferences a recursive address the SIGSEGV handler performs a 4-level hardware walk of that address through
//! the simulated tables (honouring PS at walk levels 3 and 2 exactly like an MMU), logs which physical frame the
//! access really reaches, maps that frame's memfd slot at the faulting page (read-only first, upgraded and
//! logged on the first write) and retries. The "TLB" is flushed (pages unmapped again) after every mapper call.
#![allow(dead_code)]
#![allow(static_mut_refs)]

use crate::hwwalk::{ADDR, P, PS};
use crate::simphys::{Arena, Role};

#[derive(Clone, Copy, Debug)]
pub struct PfEvent {
    pub va: u64,
    /// physical frame the access reaches (u64::MAX if the walk hit a non-present entry)
    pub phys: u64,
    pub write: bool,
    /// the frame is a live page table of the hierarchy (root or allocated)
    pub is_table: bool,
    /// the frame belongs to the simulated memory at all
    pub in_arena: bool,
    /// level at which the walk ended (1 = normal, 2/3 = through a huge-page entry, 0 = non-present)
    pub end_level: u8,
    pub rip: u64,
}

const MAXMAP: usize = 256;
const MAXLOG: usize = 8192;

pub struct SoftMmu {
    pub arena: *const Arena,
    pub r: u16,
    pub base: u64,
    pub len: u64,
    mapped: [u64; MAXMAP],
    writable: [bool; MAXMAP],
    nmapped: usize,
    log: [PfEvent; MAXLOG],
    nlog: usize,
    pub overflow: bool,
    pub scratch_slot: usize,
    pub total_faults: u64,
}

static mut MMU: *mut SoftMmu = core::ptr::null_mut();

const EMPTY: PfEvent = PfEvent { va: 0, phys: 0, write: false, is_table: false, in_arena: false, end_level: 0, rip: 0 };

/// hardware walk of `va` through the simulated tables: (frame reached, level where the walk ended)
fn walk(arena: &Arena, va: u64) -> (u64, u8) {
    let st = arena.st();
    let mut frame = st.phys[st.root];
    for level in (1..=4u8).rev() {
        let fi = match st.frame_index(frame) {
            Some(i) => i,
            None => return (frame, level + 10), // table pointer left the simulated memory
        };
        let idx = ((va >> (12 + 9 * (level as u32 - 1))) & 0x1ff) as usize;
        let e = st.read(fi, idx);
        if e & P == 0 {
            return (u64::MAX, 0);
        }
        if (level == 3 || level == 2) && e & PS != 0 {
            let size: u64 = 1 << (12 + 9 * (level as u32 - 1));
            let pa = (e & ADDR & !(size - 1)) | (va & (size - 1));
            return (pa & !0xfff, level);
        }
        frame = e & ADDR;
    }
    (frame, 1)
}

fn resolver(addr: u64, write: bool, rip: u64) -> bool {
    unsafe {
        if MMU.is_null() {
            return false;
        }
        let m = &mut *MMU;
        if addr < m.base || addr >= m.base + m.len {
            return false;
        }
        let page = addr & !0xfff;
        m.total_faults += 1;
        let arena = &*m.arena;
        let st = arena.st();
        // second fault on an already mapped read-only page: upgrade
        for i in 0..m.nmapped {
            if m.mapped[i] == page {
                if write && !m.writable[i] {
                    libc::mprotect(page as *mut libc::c_void, 4096, libc::PROT_READ | libc::PROT_WRITE);
                    m.writable[i] = true;
                    // log the write against the same frame
                    let (phys, lvl) = walk(arena, page);
                    let idx = st.frame_index(phys);
                    push(m, PfEvent { va: page, phys, write: true, is_table: idx.map(|i| matches!(st.role[i], Role::Root | Role::Allocated)).unwrap_or(false), in_arena: idx.is_some(), end_level: lvl, rip });
                    return true;
                }
                return false; // mapped and still faulting: not ours
            }
        }
        let (phys, lvl) = walk(arena, page);
        let idx = if phys == u64::MAX { None } else { st.frame_index(phys) };
        let is_table = idx.map(|i| matches!(st.role[i], Role::Root | Role::Allocated)).unwrap_or(false);
        push(m, PfEvent { va: page, phys, write, is_table, in_arena: idx.is_some(), end_level: if lvl > 4 { 0 } else { lvl }, rip });
        let slot = idx.unwrap_or(m.scratch_slot);
        let fd = st.memfd;
        let prot = if write { libc::PROT_READ | libc::PROT_WRITE } else { libc::PROT_READ };
        let p = libc::mmap(page as *mut libc::c_void, 4096, prot, libc::MAP_SHARED | libc::MAP_FIXED, fd, (slot * 4096) as libc::off_t);
        if p == libc::MAP_FAILED || m.nmapped >= MAXMAP {
            m.overflow = true;
            return false;
        }
        m.mapped[m.nmapped] = page;
        m.writable[m.nmapped] = write;
        m.nmapped += 1;
        true
    }
}

fn push(m: &mut SoftMmu, e: PfEvent) {
    if m.nlog < MAXLOG {
        m.log[m.nlog] = e;
        m.nlog += 1;
    } else {
        m.overflow = true;
    }
}

impl SoftMmu {
    /// reserve the region of recursive index `r`; None if the region is not free in this process
    pub fn new(arena: &Arena, r: u16, scratch_slot: usize) -> Option<Box<SoftMmu>> {
        let base = (r as u64) << 39;
        let len = 1u64 << 39;
        let p = unsafe { libc::mmap(base as *mut libc::c_void, len as usize, libc::PROT_NONE, libc::MAP_PRIVATE | libc::MAP_ANONYMOUS | libc::MAP_NORESERVE | libc::MAP_FIXED_NOREPLACE, -1, 0) };
        if p == libc::MAP_FAILED || p as u64 != base {
            if p != libc::MAP_FAILED {
                unsafe { libc::munmap(p, len as usize) };
            }
            return None;
        }
        let mut m = Box::new(SoftMmu { arena: arena as *const Arena, r, base, len, mapped: [0; MAXMAP], writable: [false; MAXMAP], nmapped: 0, log: [EMPTY; MAXLOG], nlog: 0, overflow: false, scratch_slot, total_faults: 0 });
        unsafe {
            MMU = &mut *m as *mut SoftMmu;
            crate::trapemu::PF_RESOLVER = Some(resolver);
        }
        Some(m)
    }
    /// address of the level-4 table seen through the recursive mapping
    pub fn l4_addr(&self) -> u64 {
        let r = self.r as u64;
        (r << 39) | (r << 30) | (r << 21) | (r << 12)
    }
    /// drop all on-demand pages (TLB flush)
    pub fn flush(&mut self) {
        for i in 0..self.nmapped {
            unsafe {
                libc::mmap(self.mapped[i] as *mut libc::c_void, 4096, libc::PROT_NONE, libc::MAP_PRIVATE | libc::MAP_ANONYMOUS | libc::MAP_NORESERVE | libc::MAP_FIXED, -1, 0);
            }
        }
        self.nmapped = 0;
    }
    /// pre-load a translation as a stale TLB entry would: map `slot` at `va`
    pub fn preload(&mut self, va: u64, slot: usize, writable: bool) {
        let st = unsafe { &*self.arena }.st();
        let prot = if writable { libc::PROT_READ | libc::PROT_WRITE } else { libc::PROT_READ };
        unsafe { libc::mmap((va & !0xfff) as *mut libc::c_void, 4096, prot, libc::MAP_SHARED | libc::MAP_FIXED, st.memfd, (slot * 4096) as libc::off_t) };
        if self.nmapped < MAXMAP {
            self.mapped[self.nmapped] = va & !0xfff;
            self.writable[self.nmapped] = writable;
            self.nmapped += 1;
        }
    }
    pub fn take_log(&mut self) -> Vec<PfEvent> {
        let v = self.log[..self.nlog].to_vec();
        self.nlog = 0;
        v
    }
}

impl Drop for SoftMmu {
    fn drop(&mut self) {
        unsafe {
            crate::trapemu::PF_RESOLVER = None;
            MMU = core::ptr::null_mut();
            libc::munmap(self.base as *mut libc::c_void, self.len as usize);
        }
    }
}
