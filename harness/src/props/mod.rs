//! One module per property; `run` dispatches on the id.
use crate::util::{Args, Report};

pub mod c03;
pub mod c04;
pub mod c05;
pub mod c06;
pub mod c07;
pub mod c08;
pub mod paging;
pub mod c11;
pub mod c12;
pub mod c13;
pub mod c14;
pub mod c15;
pub mod c16;
pub mod c17;
pub mod c18;
pub mod c19;
#[cfg(not(miri))]
pub mod c20;

pub fn run(a: &Args, rep: &mut Report) -> bool {
    match a.prop.to_lowercase().as_str() {
        "c03" => c03::run(a, rep),
        "c04" => c04::run(a, rep),
        "c05" => c05::run(a, rep),
        "c06" => c06::run(a, rep),
        "c07" => c07::run(a, rep),
        "c08" => c08::run(a, rep),
        "c01" => paging::run(a, rep, "c01"),
        "c02" => paging::run(a, rep, "c02"),
        "c09" => paging::run(a, rep, "c09"),
        "c10" => paging::run(a, rep, "c10"),
        "c11" => c11::run(a, rep),
        "c12" => c12::run(a, rep),
        "c13" => c13::run(a, rep),
        "c14" => c14::run(a, rep),
        "c15" => c15::run(a, rep),
        "c16" => c16::run(a, rep),
        "c17" => c17::run(a, rep),
        "c18" => c18::run(a, rep),
        "c19" => c19::run(a, rep),
        #[cfg(not(miri))]
        "c20" => c20::run(a, rep),
        _ => return false,
    }
    true
}
