//! One module per property; `run` dispatches on the id.
use crate::util::{Args, Report};

pub mod c03;
pub mod c04;
pub mod c05;
pub mod c06;
pub mod c07;
pub mod c08;
#[cfg(target_arch = "x86_64")]
pub mod paging;
#[cfg(target_arch = "x86_64")]
pub mod c11;
#[cfg(target_arch = "x86_64")]
pub mod c12;
#[cfg(target_arch = "x86_64")]
pub mod c13;
#[cfg(target_arch = "x86_64")]
pub mod c14;
#[cfg(target_arch = "x86_64")]
pub mod c15;
#[cfg(target_arch = "x86_64")]
pub mod c16;
#[cfg(target_arch = "x86_64")]
pub mod c17;
#[cfg(target_arch = "x86_64")]
pub mod c18;
#[cfg(target_arch = "x86_64")]
pub mod c19;
#[cfg(all(not(miri), target_arch = "x86_64"))]
pub mod c20;

/// positive controls for the sanitizer passes: a deliberate 1-byte access just past a frame, just before it, and
/// after freeing it, through the same allocation path the arena uses. The tool under which this runs must report it.
fn sanitizer_control(a: &Args, rep: &mut Report) {
    use std::alloc::{alloc, dealloc, Layout};
    let l = Layout::from_size_align(4096, 4096).unwrap();
    let kind = a.get("kind").unwrap_or("over").to_string();
    rep.eval();
    rep.class(&format!("control|{}", kind));
    rep.class("control|ran");
    unsafe {
        let p = alloc(l);
        core::ptr::write_bytes(p, 0x5a, 4096);
        let v = match kind.as_str() {
            "over" => core::ptr::read_volatile(p.add(4096)),
            "under" => core::ptr::read_volatile(p.sub(1)),
            _ => {
                dealloc(p, l);
                core::ptr::read_volatile(p.add(8))
            }
        };
        rep.count("control_value", v as u64);
        if kind != "uaf" {
            dealloc(p, l);
        }
    }
    // reaching this point means the tool did not stop the process
    rep.notes.push(format!("control '{}' was NOT stopped by the tool", kind));
}

pub fn run(a: &Args, rep: &mut Report) -> bool {
    match a.prop.to_lowercase().as_str() {
        "sanctl" => sanitizer_control(a, rep),
        "c03" => c03::run(a, rep),
        "c04" => c04::run(a, rep),
        "c05" => c05::run(a, rep),
        "c06" => c06::run(a, rep),
        "c07" => c07::run(a, rep),
        "c08" => c08::run(a, rep),
        #[cfg(target_arch = "x86_64")]
        "c01" => paging::run(a, rep, "c01"),
        #[cfg(target_arch = "x86_64")]
        "c02" => paging::run(a, rep, "c02"),
        #[cfg(target_arch = "x86_64")]
        "c09" => paging::run(a, rep, "c09"),
        #[cfg(target_arch = "x86_64")]
        "c10" => paging::run(a, rep, "c10"),
        #[cfg(target_arch = "x86_64")]
        "c11" => c11::run(a, rep),
        #[cfg(target_arch = "x86_64")]
        "c12" => c12::run(a, rep),
        #[cfg(target_arch = "x86_64")]
        "c13" => c13::run(a, rep),
        #[cfg(target_arch = "x86_64")]
        "c14" => c14::run(a, rep),
        #[cfg(target_arch = "x86_64")]
        "c15" => c15::run(a, rep),
        #[cfg(target_arch = "x86_64")]
        "c16" => c16::run(a, rep),
        #[cfg(target_arch = "x86_64")]
        "c17" => c17::run(a, rep),
        #[cfg(target_arch = "x86_64")]
        "c18" => c18::run(a, rep),
        #[cfg(target_arch = "x86_64")]
        "c19" => c19::run(a, rep),
        #[cfg(all(not(miri), target_arch = "x86_64"))]
        "c20" => c20::run(a, rep),
        _ => return false,
    }
    true
}
