//! C20 — RecursivePageTable validates its table and computes exact recursive addresses.
//! (a) pure: hook H3 exposes p3_page/p2_page/p1_page for all 512 recursive indices; oracle = sign_extend48 of R
//!     repeated 3/2/1 times followed by the page's upper indices.
//! (b) live: in the recursive paging histories every address the software MMU sees faulting must be the recursive
//!     address of a table of the hierarchy (checked inside the paging engine, tagged C20).
//! (c) RecursivePageTable::new under an emulated CR3: Ok / NotActive / NotRecursive.

use crate::gen::sign_extend48;
use crate::simphys::Arena;
use crate::softmmu::SoftMmu;
use crate::trapemu;
use crate::util::{Args, Report, Rng, J};
use x86_64::structures::paging::mapper::{verif_p1_page, verif_p1_ptr, verif_p2_page, verif_p2_ptr, verif_p3_page, verif_p3_ptr, InvalidPageTable};
use x86_64::structures::paging::{Page, PageTable, PageTableIndex, RecursivePageTable, Size1GiB, Size2MiB, Size4KiB};
use x86_64::VirtAddr;

#[inline]
fn addr4(a: u64, b: u64, c: u64, d: u64) -> u64 {
    sign_extend48((a << 39) | (b << 30) | (c << 21) | (d << 12))
}

fn check_pure(rep: &mut Report, r: u16, p4: u16, p3: u16, p2: u16, p1: u16, all_sizes: bool) -> bool {
    let ri = PageTableIndex::new(r);
    let (rr, a4, a3, a2) = (r as u64, p4 as u64, p3 as u64, p2 as u64);
    let va = addr4(a4, a3, a2, p1 as u64);
    let pg4k = Page::<Size4KiB>::containing_address(VirtAddr::new(va));
    let e3 = addr4(rr, rr, rr, a4);
    let e2 = addr4(rr, rr, a4, a3);
    let e1 = addr4(rr, a4, a3, a2);
    let g3 = verif_p3_page(pg4k, ri).start_address().as_u64();
    let g2 = verif_p2_page(pg4k, ri).start_address().as_u64();
    let g1 = verif_p1_page(pg4k, ri).start_address().as_u64();
    let mut ok = g3 == e3 && g2 == e2 && g1 == e1;
    if all_sizes {
        let pg2m = Page::<Size2MiB>::containing_address(VirtAddr::new(va));
        let pg1g = Page::<Size1GiB>::containing_address(VirtAddr::new(va));
        ok &= verif_p3_page(pg2m, ri).start_address().as_u64() == e3 && verif_p2_page(pg2m, ri).start_address().as_u64() == e2 && verif_p3_page(pg1g, ri).start_address().as_u64() == e3;
    }
    // the pointers that unmap / update_flags / translate / clean_up dereference (hook H4) are those same addresses
    let (q3, q2, q1) = (verif_p3_ptr(pg4k, ri) as u64, verif_p2_ptr(pg4k, ri) as u64, verif_p1_ptr(pg4k, ri) as u64);
    if ok && (q3 != e3 || q2 != e2 || q1 != e1) {
        let which = if q3 != e3 { "p3_ptr" } else if q2 != e2 { "p2_ptr" } else { "p1_ptr" };
        rep.violation(&format!("{}|not-R-repeated-then-upper-indices", which), J::obj(vec![("recursive_index", J::U(rr)), ("page", J::hex(va)), ("expected", J::A(vec![J::hex(e3), J::hex(e2), J::hex(e1)])), ("got", J::A(vec![J::hex(q3), J::hex(q2), J::hex(q1)]))]));
        return false;
    }
    if all_sizes && ok {
        let pg2m = Page::<Size2MiB>::containing_address(VirtAddr::new(va));
        let pg1g = Page::<Size1GiB>::containing_address(VirtAddr::new(va));
        if verif_p3_ptr(pg2m, ri) as u64 != e3 || verif_p2_ptr(pg2m, ri) as u64 != e2 || verif_p3_ptr(pg1g, ri) as u64 != e3 {
            rep.violation("pN_ptr|huge-size-variant|not-R-repeated-then-upper-indices", J::obj(vec![("recursive_index", J::U(rr)), ("page", J::hex(va))]));
            return false;
        }
    }
    if !ok {
        let which = if g3 != e3 { "p3_page" } else if g2 != e2 { "p2_page" } else if g1 != e1 { "p1_page" } else { "huge-size-variant" };
        rep.violation(
            &format!("{}|not-R-repeated-then-upper-indices", which),
            J::obj(vec![("recursive_index", J::U(rr)), ("page", J::hex(va)), ("expected", J::A(vec![J::hex(e3), J::hex(e2), J::hex(e1)])), ("got", J::A(vec![J::hex(g3), J::hex(g2), J::hex(g1)]))]),
        );
    }
    ok
}

fn pure(a: &Args, rep: &mut Report, r: &mut Rng) {
    // exhaustive over (R, p4) with the lower indices from the collision universe
    let uni = [0u16, 1, 255, 256, 511];
    'outer: for ri in 0..512u16 {
        if (ri as u64) % a.nshards != a.shard {
            continue;
        }
        for p4 in 0..512u16 {
            for &p3 in uni.iter() {
                for &p2 in uni.iter() {
                    rep.eval();
                    if !check_pure(rep, ri, p4, p3, p2, *r.pick(&uni), true) {
                        break 'outer;
                    }
                }
            }
        }
        // (R, p4, p3): thorough = all 512^2 per R, quick = 512 x 9 per R
        if a.thorough() {
            for p4 in 0..512u16 {
                for p3 in 0..512u16 {
                    rep.eval();
                    if !check_pure(rep, ri, p4, p3, (p4 ^ p3) & 511, 0, false) {
                        break 'outer;
                    }
                }
            }
        } else {
            for p4 in 0..512u16 {
                for k in 0..9u16 {
                    rep.eval();
                    if !check_pure(rep, ri, p4, (k * 57 + p4) & 511, (k * 101 + ri) & 511, 0, false) {
                        break 'outer;
                    }
                }
            }
        }
        rep.class(&format!("pure|R={}", if ri == 0 { "0" } else if ri < 256 { "lower" } else if ri == 511 { "511" } else { "upper" }));
    }
    rep.exhaustive.push(if a.thorough() { "p3/p2/p1 table pages: all 512 R x all 512^2 (p4,p3) (+ universe for p2,p1), three page sizes".into() } else { "p3/p2/p1 table pages: all 512 R x all 512 p4 x universe^2 (p3,p2), three page sizes".into() });
    let n = a.budget(300_000, 60_000_000);
    for i in 0..n {
        rep.eval();
        let x = r.next();
        let (ri, p4, p3, p2, p1) = ((x & 511) as u16, ((x >> 9) & 511) as u16, ((x >> 18) & 511) as u16, ((x >> 27) & 511) as u16, ((x >> 36) & 511) as u16);
        if !check_pure(rep, ri, p4, p3, p2, p1, i % 4 == 0) {
            break;
        }
        if i < 2 {
            rep.sample(J::obj(vec![("recursive_index", J::U(ri as u64)), ("page_indices", J::A(vec![J::U(p4 as u64), J::U(p3 as u64), J::U(p2 as u64), J::U(p1 as u64)])), ("p1_table_page", J::hex(addr4(ri as u64, p4 as u64, p3 as u64, p2 as u64)))]));
        }
    }
    rep.class("pure|random");
}

fn res_name(r: &Result<RecursivePageTable<'_>, InvalidPageTable>) -> &'static str {
    match r {
        Ok(_) => "Ok",
        Err(InvalidPageTable::NotRecursive) => "NotRecursive",
        Err(InvalidPageTable::NotActive) => "NotActive",
    }
}

/// the reasons read the same when printed: the text for NotRecursive speaks of "recursive" and not of "active", and the
/// other way round (a deliberately loose oracle over the wording)
fn reasons_print_as_themselves(rep: &mut Report) {
    rep.eval();
    let (nr, na) = (format!("{}", InvalidPageTable::NotRecursive).to_lowercase(), format!("{}", InvalidPageTable::NotActive).to_lowercase());
    let (dr, da) = (format!("{:?}", InvalidPageTable::NotRecursive), format!("{:?}", InvalidPageTable::NotActive));
    if !(nr.contains("recursive") && !nr.contains("active") && na.contains("active") && !na.contains("recursive")) || dr != "NotRecursive" || da != "NotActive" {
        rep.violation("InvalidPageTable|reason-printed-as-the-other-one", J::obj(vec![("NotRecursive", J::s(nr)), ("NotActive", J::s(na))]));
    }
    rep.class("constructor|Display-of-the-reasons");
}

fn constructor(rep: &mut Report, r: &mut Rng, n: u64) {
    reasons_print_as_themselves(rep);
    const P: u64 = 1;
    const W: u64 = 2;
    // a tiny simulated memory: root + one other frame
    // (physical frame 0 is a frame like any other)
    let root_phys = if r.chance(1, 3) { 0 } else { (r.next() & 0x000f_ffff_ffff_f000).max(0x1000) };
    let other_phys = root_phys ^ 0x1000;
    let arena = Arena::new_memfd(vec![root_phys, other_phys, other_phys ^ 0x2000], 0, r.next());
    let scratch = arena.st().n();
    let mut mmu = None;
    let mut ri = 0u16;
    for _ in 0..64 {
        let cand = 1 + r.below(255) as u16;
        if let Some(m) = SoftMmu::new(&arena, cand, scratch) {
            ri = cand;
            mmu = Some(m);
            break;
        }
    }
    let mut mmu = match mmu {
        Some(m) => m,
        None => {
            rep.inconclusive = Some("no free recursive region".into());
            return;
        }
    };
    let l4 = mmu.l4_addr();
    let mut last_alias: Option<usize> = None;
    for i in 0..n {
        rep.eval();
        let mut st = arena.st();
        if let Some(k) = last_alias.take() {
            st.write(0, k, 0);
        }
        // slot contents
        let slot_kind = r.below(5);
        let slot_raw = match slot_kind {
            0 => root_phys | P | W,
            1 => root_phys | P | (r.next() & 0xffe) | (r.next() & (0x7ff << 52)), // other flag bits (bit 7 included) do not matter
            2 => root_phys | W,                                                           // self without PRESENT
            3 => other_phys | P | W,                                                      // other frame
            _ => 0,
        };
        st.write(0, ri as usize, slot_raw);
        // the other 511 slots are somebody else's business: now and then one of them names the root frame as well (an alias
        // mapping of the level-4 table, below or above the recursive slot)
        let alias = if r.chance(1, 3) {
            let mut k = r.below(512) as usize;
            if k == ri as usize {
                k = (k + 1) % 512;
            }
            st.write(0, k, root_phys | P | W);
            Some(k)
        } else {
            None
        };
        last_alias = alias;
        // emulated CR3: that frame with arbitrary low 12 bits, or another frame
        let cr3_self = r.chance(2, 3);
        let cr3 = if cr3_self { root_phys | (r.next() & 0xfff) } else { (if r.chance(1, 2) { other_phys } else { r.next() & 0x000f_ffff_ffff_f000 }) | (r.next() & 0xfff) };
        let cr3_frame = cr3 & 0x000f_ffff_ffff_f000;
        trapemu::regs().cr[3] = cr3;
        // the table is reachable at the recursive address like a stale TLB entry would allow, whatever the slot says now
        mmu.flush();
        mmu.preload(l4, 0, true);
        let expect_ok = (slot_raw & P != 0) && (slot_raw & 0x000f_ffff_ffff_f000) == cr3_frame;
        let (res, evs) = trapemu::trapped(|| {
            let t = unsafe { &mut *(l4 as *mut PageTable) };
            res_name(&RecursivePageTable::new(t))
        });
        let exp = if expect_ok { "Ok" } else { "NotActive" };
        if res != exp {
            rep.violation(
                &format!("new|recursive-address|expected-{}|got-{}", exp, res),
                J::obj(vec![("table_address", J::hex(l4)), ("slot", J::hex(slot_raw)), ("cr3", J::hex(cr3)), ("root_frame", J::hex(root_phys)), ("events", J::A(evs.iter().map(|e| J::s(trapemu::fmt_event(e))).collect()))]),
            );
        }
        rep.class(&format!("new|recursive|slot={}|cr3={}|{}|alias={}", ["self+P", "self+P+flags", "self-noP", "other", "zero"][slot_kind as usize], if cr3_self { "self" } else { "other" }, res, match alias { None => "none", Some(k) if k < ri as usize => "below", _ => "above" }));
        // "the frame currently loaded": two constructions in one function with a switch of the root in between are two
        // looks at the root register, each judged against what is loaded at that moment
        if i % 4 == 1 {
            use x86_64::registers::control::{Cr3, Cr3Flags};
            use x86_64::structures::paging::PhysFrame;
            let second_self = r.chance(1, 2);
            let cr3b = if second_self { root_phys } else { other_phys };
            mmu.flush();
            mmu.preload(l4, 0, true);
            trapemu::regs().cr[3] = cr3;
            let ((a, b), evs) = trapemu::trapped(|| {
                let t = unsafe { &mut *(l4 as *mut PageTable) };
                let a = res_name(&RecursivePageTable::new(t));
                unsafe { Cr3::write(PhysFrame::containing_address(x86_64::PhysAddr::new(cr3b)), Cr3Flags::empty()) };
                let t2 = unsafe { &mut *(l4 as *mut PageTable) };
                let b = res_name(&RecursivePageTable::new(t2));
                (a, b)
            });
            rep.eval();
            let exp_b = if (slot_raw & P != 0) && (slot_raw & 0x000f_ffff_ffff_f000) == cr3b { "Ok" } else { "NotActive" };
            let reads = evs.iter().filter(|e| e.kind == trapemu::K::MovFromCr && e.n == 3).count();
            if a != exp || b != exp_b || reads != 2 {
                rep.violation("new|twice-around-a-root-switch|second-construction-judged-against-a-stale-root", J::obj(vec![("profile", J::s(crate::util::profile_name())), ("slot", J::hex(slot_raw)), ("cr3_first", J::hex(cr3)), ("cr3_second", J::hex(cr3b)), ("results", J::s(format!("{} then {}", a, b))), ("expected", J::s(format!("{} then {}", exp, exp_b))), ("cr3_reads_executed", J::U(reads as u64))]));
            }
            rep.class(&format!("new|twice-around-root-switch|{}-then-{}", a, b));
            trapemu::regs().cr[3] = cr3;
        }
        // the customary kernel-half recursive indices (256..511) cannot be mapped by this process: the table reference at
        // [R,R,R,R] sign-extended is redirected onto a shadow table by the trap monitor (E4, REDIRECT)
        if i % 4 == 2 {
            let rk = 256 + r.below(256);
            let hi = addr4(rk, rk, rk, rk);
            let mut shadow = Box::new(PageTable::new());
            let sp = &mut *shadow as *mut PageTable as u64;
            unsafe { *(sp as *mut u64).add(rk as usize) = slot_raw };
            trapemu::regs().cr[3] = cr3;
            unsafe { trapemu::REDIRECT = Some((hi, sp)) };
            crate::util::fault_means("C20", "new|kernel-half-recursive-address|fatal-fault".into(), J::obj(vec![("table_address", J::hex(hi)), ("recursive_index", J::U(rk))]));
            let ((name, idx_ok), evs) = trapemu::trapped(|| {
                let t = unsafe { &mut *(hi as *mut PageTable) };
                let res = RecursivePageTable::new(t);
                let name = res_name(&res);
                (name, true)
            });
            crate::util::fault_means_nothing();
            unsafe { trapemu::REDIRECT = None };
            let _ = idx_ok;
            rep.eval();
            if name != exp {
                rep.violation(&format!("new|kernel-half-recursive-address|expected-{}|got-{}", exp, name), J::obj(vec![("table_address", J::hex(hi)), ("recursive_index", J::U(rk)), ("slot", J::hex(slot_raw)), ("cr3", J::hex(cr3)), ("events", J::A(evs.iter().map(|e| J::s(trapemu::fmt_event(e))).collect()))]));
            }
            rep.class(&format!("new|kernel-half-recursive|slot={}|{}", ["self+P", "self+P+flags", "self-noP", "other", "zero"][slot_kind as usize], name));
        }
        // near-recursive addresses: one index differing at each position -> NotRecursive (no memory access needed)
        let pos = r.below(3) + 1; // positions p3, p2, p1 relative to p4
        let mut idx = [ri as u64; 4];
        let mut d = r.below(512);
        if d == ri as u64 {
            d = (d + 1) % 512;
        }
        idx[pos as usize] = d;
        let near = addr4(idx[0], idx[1], idx[2], idx[3]);
        // restore a valid active state so that only the address decides
        st.write(0, ri as usize, root_phys | P | W);
        trapemu::regs().cr[3] = root_phys;
        let (res, _) = trapemu::trapped(|| {
            let t = unsafe { &mut *(near as *mut PageTable) };
            res_name(&RecursivePageTable::new(t))
        });
        rep.eval();
        if res != "NotRecursive" {
            rep.violation(&format!("new|near-recursive-address|expected-NotRecursive|got-{}", res), J::obj(vec![("table_address", J::hex(near)), ("recursive_index", J::U(ri as u64)), ("differing_position", J::U(pos))]));
        }
        rep.class(&format!("new|near-recursive|pos={}", pos));
        // both conditions fail: either error is accepted
        st.write(0, ri as usize, 0);
        let (res, _) = trapemu::trapped(|| {
            let t = unsafe { &mut *(near as *mut PageTable) };
            res_name(&RecursivePageTable::new(t))
        });
        if res == "Ok" {
            rep.violation("new|near-recursive-and-inactive|accepted", J::hex(near));
        }
        // the index the mapper then uses is that common index: its first access goes to [R,R,R,R]
        if i % 8 == 0 {
            // (this sub-check looks at which tables a translation touches: no alias slots in the way)
            if let Some(k) = alias {
                st.write(0, k, 0);
            }
            st.write(0, ri as usize, root_phys | P | W);
            trapemu::regs().cr[3] = root_phys;
            mmu.flush();
            let _ = mmu.take_log();
            let (ok, _) = trapemu::trapped(|| {
                let t = unsafe { &mut *(l4 as *mut PageTable) };
                match RecursivePageTable::new(t) {
                    Ok(m) => {
                        // an upper-half address so that p4 differs from R
                        use x86_64::structures::paging::mapper::Translate;
                        let _ = m.translate(VirtAddr::new(0xffff_8000_0000_0000));
                        true
                    }
                    Err(_) => false,
                }
            });
            mmu.flush();
            let log = mmu.take_log();
            rep.eval();
            if !ok || log.iter().any(|e| e.va != l4) || log.is_empty() {
                rep.violation("new|mapper-does-not-use-the-common-index", J::obj(vec![("recursive_index", J::U(ri as u64)), ("accesses", J::A(log.iter().map(|e| J::hex(e.va)).collect()))]));
            }
            rep.class("new|index-used-is-R");
        }
    }
    rep.count("softmmu_faults_resolved", mmu.total_faults);
    rep.count("kernel_half_table_accesses_redirected", trapemu::REDIRECT_HITS.load(core::sync::atomic::Ordering::Relaxed));
}

pub fn run(a: &Args, rep: &mut Report) {
    trapemu::install();
    let mut r = Rng::derive(a.seed, "c20", a.shard);
    pure(a, rep, &mut r);
    constructor(rep, &mut r, a.budget(4_000, 1_000_000));
    // (b) live histories on the recursive mapper: C20-tagged violations come from the paging engine
    let mut a2 = Args { prop: a.prop.clone(), tier: a.tier.clone(), seed: a.seed, shard: a.shard, nshards: a.nshards, out: None, scale: a.scale * 0.2, extra: a.extra.clone() };
    a2.extra.insert("impl".into(), "recursive".into());
    super::paging::run(&a2, rep, "c20");
}
