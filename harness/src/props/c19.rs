//! C19 — named constants and small codecs match the architecture manuals.
//! Oracle: an independently written table (transcribed from the Intel SDM / AMD APM, never derived from the
//! crate) of every public constant; the real CPU where the bit can be exercised in user mode; exhaustive codecs.

use crate::util::{catch, Args, Report, Rng, J};
use core::arch::asm;
use core::convert::TryFrom;
use x86_64::instructions::tlb::Pcid;
use x86_64::registers::control::{Cr0Flags, Cr3Flags, Cr4Flags, EferFlags};
use x86_64::registers::debug::{BreakpointCondition, BreakpointSize, DebugAddressRegisterNumber, Dr6Flags, Dr7Flags, Dr7Value};
use x86_64::registers::model_specific::{ApicBaseFlags, CetFlags, Pat, PatMemoryType};
use x86_64::registers::mxcsr::MxCsr;
use x86_64::registers::rflags::RFlags;
use x86_64::registers::xcontrol::XCr0Flags;
use x86_64::structures::gdt::{DescriptorFlags, SegmentSelector};
use x86_64::structures::idt::{DescriptorTable, ExceptionVector, PageFaultErrorCode, SelectorErrorCode};
use x86_64::structures::paging::{PageSize, PageTableFlags, Size1GiB, Size2MiB, Size4KiB};
use x86_64::PrivilegeLevel;

fn b(n: u32) -> u64 {
    1u64 << n
}

/// (name, value in the crate, value per the manuals)
fn table() -> Vec<(&'static str, u64, u64)> {
    let mut t: Vec<(&'static str, u64, u64)> = Vec::new();
    macro_rules! c {
        ($name:expr, $crate_val:expr, $manual:expr) => {
            t.push(($name, $crate_val as u64, $manual as u64));
        };
    }
    // --- page-table entry bits (SDM vol.3 4.5, table 4-19/4-20)
    c!("PageTableFlags::PRESENT", PageTableFlags::PRESENT.bits(), b(0));
    c!("PageTableFlags::WRITABLE", PageTableFlags::WRITABLE.bits(), b(1));
    c!("PageTableFlags::USER_ACCESSIBLE", PageTableFlags::USER_ACCESSIBLE.bits(), b(2));
    c!("PageTableFlags::WRITE_THROUGH", PageTableFlags::WRITE_THROUGH.bits(), b(3));
    c!("PageTableFlags::NO_CACHE", PageTableFlags::NO_CACHE.bits(), b(4));
    c!("PageTableFlags::ACCESSED", PageTableFlags::ACCESSED.bits(), b(5));
    c!("PageTableFlags::DIRTY", PageTableFlags::DIRTY.bits(), b(6));
    c!("PageTableFlags::HUGE_PAGE", PageTableFlags::HUGE_PAGE.bits(), b(7));
    c!("PageTableFlags::PAT_4KIB_PAGE", PageTableFlags::PAT_4KIB_PAGE.bits(), b(7));
    c!("PageTableFlags::GLOBAL", PageTableFlags::GLOBAL.bits(), b(8));
    c!("PageTableFlags::BIT_9", PageTableFlags::BIT_9.bits(), b(9));
    c!("PageTableFlags::BIT_10", PageTableFlags::BIT_10.bits(), b(10));
    c!("PageTableFlags::BIT_11", PageTableFlags::BIT_11.bits(), b(11));
    c!("PageTableFlags::PAT_HUGE_PAGE", PageTableFlags::PAT_HUGE_PAGE.bits(), b(12));
    c!("PageTableFlags::BIT_52", PageTableFlags::BIT_52.bits(), b(52));
    c!("PageTableFlags::BIT_53", PageTableFlags::BIT_53.bits(), b(53));
    c!("PageTableFlags::BIT_54", PageTableFlags::BIT_54.bits(), b(54));
    c!("PageTableFlags::BIT_55", PageTableFlags::BIT_55.bits(), b(55));
    c!("PageTableFlags::BIT_56", PageTableFlags::BIT_56.bits(), b(56));
    c!("PageTableFlags::BIT_57", PageTableFlags::BIT_57.bits(), b(57));
    c!("PageTableFlags::BIT_58", PageTableFlags::BIT_58.bits(), b(58));
    c!("PageTableFlags::BIT_59", PageTableFlags::BIT_59.bits(), b(59));
    c!("PageTableFlags::BIT_60", PageTableFlags::BIT_60.bits(), b(60));
    c!("PageTableFlags::BIT_61", PageTableFlags::BIT_61.bits(), b(61));
    c!("PageTableFlags::BIT_62", PageTableFlags::BIT_62.bits(), b(62));
    c!("PageTableFlags::NO_EXECUTE", PageTableFlags::NO_EXECUTE.bits(), b(63));
    // --- segment descriptor bits (SDM vol.3 3.4.5)
    c!("DescriptorFlags::ACCESSED", DescriptorFlags::ACCESSED.bits(), b(40));
    c!("DescriptorFlags::WRITABLE", DescriptorFlags::WRITABLE.bits(), b(41));
    c!("DescriptorFlags::CONFORMING", DescriptorFlags::CONFORMING.bits(), b(42));
    c!("DescriptorFlags::EXECUTABLE", DescriptorFlags::EXECUTABLE.bits(), b(43));
    c!("DescriptorFlags::USER_SEGMENT", DescriptorFlags::USER_SEGMENT.bits(), b(44));
    c!("DescriptorFlags::DPL_RING_3", DescriptorFlags::DPL_RING_3.bits(), b(45) | b(46));
    c!("DescriptorFlags::PRESENT", DescriptorFlags::PRESENT.bits(), b(47));
    c!("DescriptorFlags::AVAILABLE", DescriptorFlags::AVAILABLE.bits(), b(52));
    c!("DescriptorFlags::LONG_MODE", DescriptorFlags::LONG_MODE.bits(), b(53));
    c!("DescriptorFlags::DEFAULT_SIZE", DescriptorFlags::DEFAULT_SIZE.bits(), b(54));
    c!("DescriptorFlags::GRANULARITY", DescriptorFlags::GRANULARITY.bits(), b(55));
    c!("DescriptorFlags::LIMIT_0_15", DescriptorFlags::LIMIT_0_15.bits(), 0xffffu64);
    c!("DescriptorFlags::LIMIT_16_19", DescriptorFlags::LIMIT_16_19.bits(), 0xfu64 << 48);
    c!("DescriptorFlags::BASE_0_23", DescriptorFlags::BASE_0_23.bits(), 0xff_ffffu64 << 16);
    c!("DescriptorFlags::BASE_24_31", DescriptorFlags::BASE_24_31.bits(), 0xffu64 << 56);
    // Linux' flat descriptors (arch/x86/kernel/cpu/common.c)
    c!("DescriptorFlags::KERNEL_CODE64", DescriptorFlags::KERNEL_CODE64.bits(), 0x00af9b000000ffffu64);
    c!("DescriptorFlags::KERNEL_CODE32", DescriptorFlags::KERNEL_CODE32.bits(), 0x00cf9b000000ffffu64);
    c!("DescriptorFlags::KERNEL_DATA", DescriptorFlags::KERNEL_DATA.bits(), 0x00cf93000000ffffu64);
    c!("DescriptorFlags::USER_CODE64", DescriptorFlags::USER_CODE64.bits(), 0x00affb000000ffffu64);
    c!("DescriptorFlags::USER_CODE32", DescriptorFlags::USER_CODE32.bits(), 0x00cffb000000ffffu64);
    c!("DescriptorFlags::USER_DATA", DescriptorFlags::USER_DATA.bits(), 0x00cff3000000ffffu64);
    // --- RFLAGS (SDM vol.1 3.4.3)
    c!("RFlags::CARRY_FLAG", RFlags::CARRY_FLAG.bits(), b(0));
    c!("RFlags::PARITY_FLAG", RFlags::PARITY_FLAG.bits(), b(2));
    c!("RFlags::AUXILIARY_CARRY_FLAG", RFlags::AUXILIARY_CARRY_FLAG.bits(), b(4));
    c!("RFlags::ZERO_FLAG", RFlags::ZERO_FLAG.bits(), b(6));
    c!("RFlags::SIGN_FLAG", RFlags::SIGN_FLAG.bits(), b(7));
    c!("RFlags::TRAP_FLAG", RFlags::TRAP_FLAG.bits(), b(8));
    c!("RFlags::INTERRUPT_FLAG", RFlags::INTERRUPT_FLAG.bits(), b(9));
    c!("RFlags::DIRECTION_FLAG", RFlags::DIRECTION_FLAG.bits(), b(10));
    c!("RFlags::OVERFLOW_FLAG", RFlags::OVERFLOW_FLAG.bits(), b(11));
    c!("RFlags::IOPL_LOW", RFlags::IOPL_LOW.bits(), b(12));
    c!("RFlags::IOPL_HIGH", RFlags::IOPL_HIGH.bits(), b(13));
    c!("RFlags::NESTED_TASK", RFlags::NESTED_TASK.bits(), b(14));
    c!("RFlags::RESUME_FLAG", RFlags::RESUME_FLAG.bits(), b(16));
    c!("RFlags::VIRTUAL_8086_MODE", RFlags::VIRTUAL_8086_MODE.bits(), b(17));
    c!("RFlags::ALIGNMENT_CHECK", RFlags::ALIGNMENT_CHECK.bits(), b(18));
    c!("RFlags::VIRTUAL_INTERRUPT", RFlags::VIRTUAL_INTERRUPT.bits(), b(19));
    c!("RFlags::VIRTUAL_INTERRUPT_PENDING", RFlags::VIRTUAL_INTERRUPT_PENDING.bits(), b(20));
    c!("RFlags::ID", RFlags::ID.bits(), b(21));
    // --- CR0 / CR3 / CR4 (SDM vol.3 2.5)
    c!("Cr0Flags::PROTECTED_MODE_ENABLE", Cr0Flags::PROTECTED_MODE_ENABLE.bits(), b(0));
    c!("Cr0Flags::MONITOR_COPROCESSOR", Cr0Flags::MONITOR_COPROCESSOR.bits(), b(1));
    c!("Cr0Flags::EMULATE_COPROCESSOR", Cr0Flags::EMULATE_COPROCESSOR.bits(), b(2));
    c!("Cr0Flags::TASK_SWITCHED", Cr0Flags::TASK_SWITCHED.bits(), b(3));
    c!("Cr0Flags::EXTENSION_TYPE", Cr0Flags::EXTENSION_TYPE.bits(), b(4));
    c!("Cr0Flags::NUMERIC_ERROR", Cr0Flags::NUMERIC_ERROR.bits(), b(5));
    c!("Cr0Flags::WRITE_PROTECT", Cr0Flags::WRITE_PROTECT.bits(), b(16));
    c!("Cr0Flags::ALIGNMENT_MASK", Cr0Flags::ALIGNMENT_MASK.bits(), b(18));
    c!("Cr0Flags::NOT_WRITE_THROUGH", Cr0Flags::NOT_WRITE_THROUGH.bits(), b(29));
    c!("Cr0Flags::CACHE_DISABLE", Cr0Flags::CACHE_DISABLE.bits(), b(30));
    c!("Cr0Flags::PAGING", Cr0Flags::PAGING.bits(), b(31));
    c!("Cr3Flags::PAGE_LEVEL_WRITETHROUGH", Cr3Flags::PAGE_LEVEL_WRITETHROUGH.bits(), b(3));
    c!("Cr3Flags::PAGE_LEVEL_CACHE_DISABLE", Cr3Flags::PAGE_LEVEL_CACHE_DISABLE.bits(), b(4));
    c!("Cr4Flags::VIRTUAL_8086_MODE_EXTENSIONS", Cr4Flags::VIRTUAL_8086_MODE_EXTENSIONS.bits(), b(0));
    c!("Cr4Flags::PROTECTED_MODE_VIRTUAL_INTERRUPTS", Cr4Flags::PROTECTED_MODE_VIRTUAL_INTERRUPTS.bits(), b(1));
    c!("Cr4Flags::TIMESTAMP_DISABLE", Cr4Flags::TIMESTAMP_DISABLE.bits(), b(2));
    c!("Cr4Flags::DEBUGGING_EXTENSIONS", Cr4Flags::DEBUGGING_EXTENSIONS.bits(), b(3));
    c!("Cr4Flags::PAGE_SIZE_EXTENSION", Cr4Flags::PAGE_SIZE_EXTENSION.bits(), b(4));
    c!("Cr4Flags::PHYSICAL_ADDRESS_EXTENSION", Cr4Flags::PHYSICAL_ADDRESS_EXTENSION.bits(), b(5));
    c!("Cr4Flags::MACHINE_CHECK_EXCEPTION", Cr4Flags::MACHINE_CHECK_EXCEPTION.bits(), b(6));
    c!("Cr4Flags::PAGE_GLOBAL", Cr4Flags::PAGE_GLOBAL.bits(), b(7));
    c!("Cr4Flags::PERFORMANCE_MONITOR_COUNTER", Cr4Flags::PERFORMANCE_MONITOR_COUNTER.bits(), b(8));
    c!("Cr4Flags::OSFXSR", Cr4Flags::OSFXSR.bits(), b(9));
    c!("Cr4Flags::OSXMMEXCPT_ENABLE", Cr4Flags::OSXMMEXCPT_ENABLE.bits(), b(10));
    c!("Cr4Flags::USER_MODE_INSTRUCTION_PREVENTION", Cr4Flags::USER_MODE_INSTRUCTION_PREVENTION.bits(), b(11));
    c!("Cr4Flags::L5_PAGING", Cr4Flags::L5_PAGING.bits(), b(12));
    c!("Cr4Flags::VIRTUAL_MACHINE_EXTENSIONS", Cr4Flags::VIRTUAL_MACHINE_EXTENSIONS.bits(), b(13));
    c!("Cr4Flags::SAFER_MODE_EXTENSIONS", Cr4Flags::SAFER_MODE_EXTENSIONS.bits(), b(14));
    c!("Cr4Flags::FSGSBASE", Cr4Flags::FSGSBASE.bits(), b(16));
    c!("Cr4Flags::PCID", Cr4Flags::PCID.bits(), b(17));
    c!("Cr4Flags::OSXSAVE", Cr4Flags::OSXSAVE.bits(), b(18));
    c!("Cr4Flags::KEY_LOCKER", Cr4Flags::KEY_LOCKER.bits(), b(19));
    c!("Cr4Flags::SUPERVISOR_MODE_EXECUTION_PROTECTION", Cr4Flags::SUPERVISOR_MODE_EXECUTION_PROTECTION.bits(), b(20));
    c!("Cr4Flags::SUPERVISOR_MODE_ACCESS_PREVENTION", Cr4Flags::SUPERVISOR_MODE_ACCESS_PREVENTION.bits(), b(21));
    c!("Cr4Flags::PROTECTION_KEY_USER", Cr4Flags::PROTECTION_KEY_USER.bits(), b(22));
    c!("Cr4Flags::CONTROL_FLOW_ENFORCEMENT", Cr4Flags::CONTROL_FLOW_ENFORCEMENT.bits(), b(23));
    c!("Cr4Flags::PROTECTION_KEY_SUPERVISOR", Cr4Flags::PROTECTION_KEY_SUPERVISOR.bits(), b(24));
    // --- EFER (APM vol.2 3.1.7)
    c!("EferFlags::SYSTEM_CALL_EXTENSIONS", EferFlags::SYSTEM_CALL_EXTENSIONS.bits(), b(0));
    c!("EferFlags::LONG_MODE_ENABLE", EferFlags::LONG_MODE_ENABLE.bits(), b(8));
    c!("EferFlags::LONG_MODE_ACTIVE", EferFlags::LONG_MODE_ACTIVE.bits(), b(10));
    c!("EferFlags::NO_EXECUTE_ENABLE", EferFlags::NO_EXECUTE_ENABLE.bits(), b(11));
    c!("EferFlags::SECURE_VIRTUAL_MACHINE_ENABLE", EferFlags::SECURE_VIRTUAL_MACHINE_ENABLE.bits(), b(12));
    c!("EferFlags::LONG_MODE_SEGMENT_LIMIT_ENABLE", EferFlags::LONG_MODE_SEGMENT_LIMIT_ENABLE.bits(), b(13));
    c!("EferFlags::FAST_FXSAVE_FXRSTOR", EferFlags::FAST_FXSAVE_FXRSTOR.bits(), b(14));
    c!("EferFlags::TRANSLATION_CACHE_EXTENSION", EferFlags::TRANSLATION_CACHE_EXTENSION.bits(), b(15));
    // --- XCR0 (SDM vol.1 13.3; LWP: APM)
    c!("XCr0Flags::X87", XCr0Flags::X87.bits(), b(0));
    c!("XCr0Flags::SSE", XCr0Flags::SSE.bits(), b(1));
    c!("XCr0Flags::AVX", XCr0Flags::AVX.bits(), b(2));
    c!("XCr0Flags::BNDREG", XCr0Flags::BNDREG.bits(), b(3));
    c!("XCr0Flags::BNDCSR", XCr0Flags::BNDCSR.bits(), b(4));
    c!("XCr0Flags::OPMASK", XCr0Flags::OPMASK.bits(), b(5));
    c!("XCr0Flags::ZMM_HI256", XCr0Flags::ZMM_HI256.bits(), b(6));
    c!("XCr0Flags::HI16_ZMM", XCr0Flags::HI16_ZMM.bits(), b(7));
    c!("XCr0Flags::MPK", XCr0Flags::MPK.bits(), b(9));
    c!("XCr0Flags::LWP", XCr0Flags::LWP.bits(), b(62));
    // --- MXCSR (SDM vol.1 10.2.3)
    c!("MxCsr::INVALID_OPERATION", MxCsr::INVALID_OPERATION.bits(), b(0));
    c!("MxCsr::DENORMAL", MxCsr::DENORMAL.bits(), b(1));
    c!("MxCsr::DIVIDE_BY_ZERO", MxCsr::DIVIDE_BY_ZERO.bits(), b(2));
    c!("MxCsr::OVERFLOW", MxCsr::OVERFLOW.bits(), b(3));
    c!("MxCsr::UNDERFLOW", MxCsr::UNDERFLOW.bits(), b(4));
    c!("MxCsr::PRECISION", MxCsr::PRECISION.bits(), b(5));
    c!("MxCsr::DENORMALS_ARE_ZEROS", MxCsr::DENORMALS_ARE_ZEROS.bits(), b(6));
    c!("MxCsr::INVALID_OPERATION_MASK", MxCsr::INVALID_OPERATION_MASK.bits(), b(7));
    c!("MxCsr::DENORMAL_MASK", MxCsr::DENORMAL_MASK.bits(), b(8));
    c!("MxCsr::DIVIDE_BY_ZERO_MASK", MxCsr::DIVIDE_BY_ZERO_MASK.bits(), b(9));
    c!("MxCsr::OVERFLOW_MASK", MxCsr::OVERFLOW_MASK.bits(), b(10));
    c!("MxCsr::UNDERFLOW_MASK", MxCsr::UNDERFLOW_MASK.bits(), b(11));
    c!("MxCsr::PRECISION_MASK", MxCsr::PRECISION_MASK.bits(), b(12));
    c!("MxCsr::ROUNDING_CONTROL_NEGATIVE", MxCsr::ROUNDING_CONTROL_NEGATIVE.bits(), b(13));
    c!("MxCsr::ROUNDING_CONTROL_POSITIVE", MxCsr::ROUNDING_CONTROL_POSITIVE.bits(), b(14));
    c!("MxCsr::ROUNDING_CONTROL_ZERO", MxCsr::ROUNDING_CONTROL_ZERO.bits(), b(13) | b(14));
    c!("MxCsr::FLUSH_TO_ZERO", MxCsr::FLUSH_TO_ZERO.bits(), b(15));
    c!("MxCsr::default()", MxCsr::default().bits(), 0x1f80u64);
    // --- DR6 / DR7 (SDM vol.3 18.2)
    c!("Dr6Flags::TRAP0", Dr6Flags::TRAP0.bits(), b(0));
    c!("Dr6Flags::TRAP1", Dr6Flags::TRAP1.bits(), b(1));
    c!("Dr6Flags::TRAP2", Dr6Flags::TRAP2.bits(), b(2));
    c!("Dr6Flags::TRAP3", Dr6Flags::TRAP3.bits(), b(3));
    c!("Dr6Flags::TRAP", Dr6Flags::TRAP.bits(), 0xfu64);
    c!("Dr6Flags::ACCESS_DETECTED", Dr6Flags::ACCESS_DETECTED.bits(), b(13));
    c!("Dr6Flags::STEP", Dr6Flags::STEP.bits(), b(14));
    c!("Dr6Flags::SWITCH", Dr6Flags::SWITCH.bits(), b(15));
    c!("Dr6Flags::RTM", Dr6Flags::RTM.bits(), b(16));
    c!("Dr7Flags::LOCAL_BREAKPOINT_0_ENABLE", Dr7Flags::LOCAL_BREAKPOINT_0_ENABLE.bits(), b(0));
    c!("Dr7Flags::GLOBAL_BREAKPOINT_0_ENABLE", Dr7Flags::GLOBAL_BREAKPOINT_0_ENABLE.bits(), b(1));
    c!("Dr7Flags::LOCAL_BREAKPOINT_1_ENABLE", Dr7Flags::LOCAL_BREAKPOINT_1_ENABLE.bits(), b(2));
    c!("Dr7Flags::GLOBAL_BREAKPOINT_1_ENABLE", Dr7Flags::GLOBAL_BREAKPOINT_1_ENABLE.bits(), b(3));
    c!("Dr7Flags::LOCAL_BREAKPOINT_2_ENABLE", Dr7Flags::LOCAL_BREAKPOINT_2_ENABLE.bits(), b(4));
    c!("Dr7Flags::GLOBAL_BREAKPOINT_2_ENABLE", Dr7Flags::GLOBAL_BREAKPOINT_2_ENABLE.bits(), b(5));
    c!("Dr7Flags::LOCAL_BREAKPOINT_3_ENABLE", Dr7Flags::LOCAL_BREAKPOINT_3_ENABLE.bits(), b(6));
    c!("Dr7Flags::GLOBAL_BREAKPOINT_3_ENABLE", Dr7Flags::GLOBAL_BREAKPOINT_3_ENABLE.bits(), b(7));
    c!("Dr7Flags::LOCAL_EXACT_BREAKPOINT_ENABLE", Dr7Flags::LOCAL_EXACT_BREAKPOINT_ENABLE.bits(), b(8));
    c!("Dr7Flags::GLOBAL_EXACT_BREAKPOINT_ENABLE", Dr7Flags::GLOBAL_EXACT_BREAKPOINT_ENABLE.bits(), b(9));
    c!("Dr7Flags::RESTRICTED_TRANSACTIONAL_MEMORY", Dr7Flags::RESTRICTED_TRANSACTIONAL_MEMORY.bits(), b(11));
    c!("Dr7Flags::GENERAL_DETECT_ENABLE", Dr7Flags::GENERAL_DETECT_ENABLE.bits(), b(13));
    c!("BreakpointCondition::InstructionExecution", BreakpointCondition::InstructionExecution as u8, 0);
    c!("BreakpointCondition::DataWrites", BreakpointCondition::DataWrites as u8, 1);
    c!("BreakpointCondition::IoReadsWrites", BreakpointCondition::IoReadsWrites as u8, 2);
    c!("BreakpointCondition::DataReadsWrites", BreakpointCondition::DataReadsWrites as u8, 3);
    c!("BreakpointSize::Length1B", BreakpointSize::Length1B as u8, 0);
    c!("BreakpointSize::Length2B", BreakpointSize::Length2B as u8, 1);
    c!("BreakpointSize::Length8B", BreakpointSize::Length8B as u8, 2);
    c!("BreakpointSize::Length4B", BreakpointSize::Length4B as u8, 3);
    // --- CET MSRs (SDM vol.1 17.1.2), APIC base (SDM vol.3 11.4.4)
    c!("CetFlags::SS_ENABLE", CetFlags::SS_ENABLE.bits(), b(0));
    c!("CetFlags::SS_WRITE_ENABLE", CetFlags::SS_WRITE_ENABLE.bits(), b(1));
    c!("CetFlags::IBT_ENABLE", CetFlags::IBT_ENABLE.bits(), b(2));
    c!("CetFlags::IBT_LEGACY_ENABLE", CetFlags::IBT_LEGACY_ENABLE.bits(), b(3));
    c!("CetFlags::IBT_NO_TRACK_ENABLE", CetFlags::IBT_NO_TRACK_ENABLE.bits(), b(4));
    c!("CetFlags::IBT_LEGACY_SUPPRESS_ENABLE", CetFlags::IBT_LEGACY_SUPPRESS_ENABLE.bits(), b(5));
    c!("CetFlags::IBT_SUPPRESS_ENABLE", CetFlags::IBT_SUPPRESS_ENABLE.bits(), b(10));
    c!("CetFlags::IBT_TRACKED", CetFlags::IBT_TRACKED.bits(), b(11));
    c!("ApicBaseFlags::BSP", ApicBaseFlags::BSP.bits(), b(8));
    c!("ApicBaseFlags::X2APIC_ENABLE", ApicBaseFlags::X2APIC_ENABLE.bits(), b(10));
    c!("ApicBaseFlags::LAPIC_ENABLE", ApicBaseFlags::LAPIC_ENABLE.bits(), b(11));
    // --- page-fault error code (SDM vol.3 4.7; APM for RMP)
    c!("PageFaultErrorCode::PROTECTION_VIOLATION", PageFaultErrorCode::PROTECTION_VIOLATION.bits(), b(0));
    c!("PageFaultErrorCode::CAUSED_BY_WRITE", PageFaultErrorCode::CAUSED_BY_WRITE.bits(), b(1));
    c!("PageFaultErrorCode::USER_MODE", PageFaultErrorCode::USER_MODE.bits(), b(2));
    c!("PageFaultErrorCode::MALFORMED_TABLE", PageFaultErrorCode::MALFORMED_TABLE.bits(), b(3));
    c!("PageFaultErrorCode::INSTRUCTION_FETCH", PageFaultErrorCode::INSTRUCTION_FETCH.bits(), b(4));
    c!("PageFaultErrorCode::PROTECTION_KEY", PageFaultErrorCode::PROTECTION_KEY.bits(), b(5));
    c!("PageFaultErrorCode::SHADOW_STACK", PageFaultErrorCode::SHADOW_STACK.bits(), b(6));
    c!("PageFaultErrorCode::SGX", PageFaultErrorCode::SGX.bits(), b(15));
    c!("PageFaultErrorCode::RMP", PageFaultErrorCode::RMP.bits(), b(31));
    // --- PAT memory types (SDM vol.3 table 12-10) and power-on default
    c!("PatMemoryType::StrongUncacheable", PatMemoryType::StrongUncacheable.bits(), 0);
    c!("PatMemoryType::WriteCombining", PatMemoryType::WriteCombining.bits(), 1);
    c!("PatMemoryType::WriteThrough", PatMemoryType::WriteThrough.bits(), 4);
    c!("PatMemoryType::WriteProtected", PatMemoryType::WriteProtected.bits(), 5);
    c!("PatMemoryType::WriteBack", PatMemoryType::WriteBack.bits(), 6);
    c!("PatMemoryType::Uncacheable", PatMemoryType::Uncacheable.bits(), 7);
    c!("Pat::DEFAULT", u64::from_le_bytes(Pat::DEFAULT.map(|t| t.bits())), 0x0007_0406_0007_0406u64);
    // --- exception vectors (SDM vol.3 table 6-1; APM for 0x1C-0x1E)
    c!("ExceptionVector::Division", ExceptionVector::Division as u8, 0);
    c!("ExceptionVector::Debug", ExceptionVector::Debug as u8, 1);
    c!("ExceptionVector::NonMaskableInterrupt", ExceptionVector::NonMaskableInterrupt as u8, 2);
    c!("ExceptionVector::Breakpoint", ExceptionVector::Breakpoint as u8, 3);
    c!("ExceptionVector::Overflow", ExceptionVector::Overflow as u8, 4);
    c!("ExceptionVector::BoundRange", ExceptionVector::BoundRange as u8, 5);
    c!("ExceptionVector::InvalidOpcode", ExceptionVector::InvalidOpcode as u8, 6);
    c!("ExceptionVector::DeviceNotAvailable", ExceptionVector::DeviceNotAvailable as u8, 7);
    c!("ExceptionVector::Double", ExceptionVector::Double as u8, 8);
    c!("ExceptionVector::InvalidTss", ExceptionVector::InvalidTss as u8, 10);
    c!("ExceptionVector::SegmentNotPresent", ExceptionVector::SegmentNotPresent as u8, 11);
    c!("ExceptionVector::Stack", ExceptionVector::Stack as u8, 12);
    c!("ExceptionVector::GeneralProtection", ExceptionVector::GeneralProtection as u8, 13);
    c!("ExceptionVector::Page", ExceptionVector::Page as u8, 14);
    c!("ExceptionVector::X87FloatingPoint", ExceptionVector::X87FloatingPoint as u8, 16);
    c!("ExceptionVector::AlignmentCheck", ExceptionVector::AlignmentCheck as u8, 17);
    c!("ExceptionVector::MachineCheck", ExceptionVector::MachineCheck as u8, 18);
    c!("ExceptionVector::SimdFloatingPoint", ExceptionVector::SimdFloatingPoint as u8, 19);
    c!("ExceptionVector::Virtualization", ExceptionVector::Virtualization as u8, 20);
    c!("ExceptionVector::ControlProtection", ExceptionVector::ControlProtection as u8, 21);
    c!("ExceptionVector::HypervisorInjection", ExceptionVector::HypervisorInjection as u8, 28);
    c!("ExceptionVector::VmmCommunication", ExceptionVector::VmmCommunication as u8, 29);
    c!("ExceptionVector::Security", ExceptionVector::Security as u8, 30);
    // --- page sizes, privilege levels
    c!("Size4KiB::SIZE", Size4KiB::SIZE, 4096u64);
    c!("Size2MiB::SIZE", Size2MiB::SIZE, 2u64 * 1024 * 1024);
    c!("Size1GiB::SIZE", Size1GiB::SIZE, 1024u64 * 1024 * 1024);
    c!("PrivilegeLevel::Ring0", PrivilegeLevel::Ring0 as u8, 0);
    c!("PrivilegeLevel::Ring1", PrivilegeLevel::Ring1 as u8, 1);
    c!("PrivilegeLevel::Ring2", PrivilegeLevel::Ring2 as u8, 2);
    c!("PrivilegeLevel::Ring3", PrivilegeLevel::Ring3 as u8, 3);
    c!("SegmentSelector::NULL", SegmentSelector::NULL.0, 0);
    t
}

/// MSR numbers are private data of `Msr`; observe them through the operand of a trapped rdmsr
fn msr_numbers(rep: &mut Report) {
    use crate::trapemu;
    use x86_64::registers::model_specific::*;
    trapemu::install();
    let probe = |m: &Msr| -> u32 {
        let (_, evs) = trapemu::trapped(|| unsafe { m.read() });
        evs.first().map(|e| e.n).unwrap_or(u32::MAX)
    };
    use x86_64::instructions::segmentation::{Segment64, FS, GS};
    let list: [(&str, u32, u32); 13] = [
        ("<FS as Segment64>::BASE", probe(&<FS as Segment64>::BASE), 0xC000_0100),
        ("<GS as Segment64>::BASE", probe(&<GS as Segment64>::BASE), 0xC000_0101),
        ("Efer::MSR", probe(&Efer::MSR), 0xC000_0080),
        ("Star::MSR", probe(&Star::MSR), 0xC000_0081),
        ("LStar::MSR", probe(&LStar::MSR), 0xC000_0082),
        ("SFMask::MSR", probe(&SFMask::MSR), 0xC000_0084),
        ("FsBase::MSR", probe(&FsBase::MSR), 0xC000_0100),
        ("GsBase::MSR", probe(&GsBase::MSR), 0xC000_0101),
        ("KernelGsBase::MSR", probe(&KernelGsBase::MSR), 0xC000_0102),
        ("UCet::MSR", probe(&UCet::MSR), 0x6A0),
        ("SCet::MSR", probe(&SCet::MSR), 0x6A2),
        ("Pat::MSR", probe(&Pat::MSR), 0x277),
        ("ApicBase::MSR", probe(&ApicBase::MSR), 0x1B),
    ];
    for (name, got, want) in list {
        rep.eval();
        if got != want {
            rep.violation(&format!("{}|differs-from-manual", name), J::obj(vec![("crate", J::hex(got as u64)), ("manual", J::hex(want as u64))]));
        }
        rep.class(&format!("const|{}", name));
    }
}

fn raw_flags_after(which: u32) -> u64 {
    let v: u64;
    unsafe {
        match which {
            0 => asm!("stc", "pushfq", "pop {}", out(reg) v),
            1 => asm!("clc", "pushfq", "pop {}", out(reg) v),
            2 => asm!("xor {t:e}, {t:e}", "pushfq", "pop {v}", t = out(reg) _, v = out(reg) v), // ZF=1 PF=1 SF=0 CF=0 OF=0
            3 => asm!("mov {t:e}, 1", "or {t:e}, {t:e}", "pushfq", "pop {v}", t = out(reg) _, v = out(reg) v), // ZF=0 PF=0
            4 => asm!("mov {t:e}, 0x80000000", "test {t:e}, {t:e}", "pushfq", "pop {v}", t = out(reg) _, v = out(reg) v), // SF=1
            5 => asm!("mov {t}, 0x7f", "add {t}, 1", "pushfq", "pop {v}", t = out(reg_byte) _, v = out(reg) v), // OF=1 AF=1 SF=1
            6 => asm!("std", "pushfq", "pop {}", "cld", out(reg) v),
            _ => asm!("cld", "pushfq", "pop {}", out(reg) v),
        }
    }
    v
}

fn cpu_rflags(rep: &mut Report) {
    let has = |raw: u64, f: RFlags| RFlags::from_bits_truncate(raw).contains(f);
    let mut bad = |what: &str, raw: u64| rep.violation(&format!("RFlags::{}|disagrees-with-cpu", what), J::hex(raw));
    let r = raw_flags_after(0);
    if !has(r, RFlags::CARRY_FLAG) {
        bad("CARRY_FLAG(after stc)", r);
    }
    let r = raw_flags_after(1);
    if has(r, RFlags::CARRY_FLAG) {
        bad("CARRY_FLAG(after clc)", r);
    }
    let r = raw_flags_after(2);
    if !has(r, RFlags::ZERO_FLAG) || !has(r, RFlags::PARITY_FLAG) || has(r, RFlags::SIGN_FLAG) || has(r, RFlags::OVERFLOW_FLAG) || has(r, RFlags::CARRY_FLAG) {
        bad("ZERO/PARITY(after xor r,r)", r);
    }
    let r = raw_flags_after(3);
    if has(r, RFlags::ZERO_FLAG) || has(r, RFlags::PARITY_FLAG) {
        bad("ZERO/PARITY(after or 1)", r);
    }
    let r = raw_flags_after(4);
    if !has(r, RFlags::SIGN_FLAG) {
        bad("SIGN_FLAG", r);
    }
    let r = raw_flags_after(5);
    if !has(r, RFlags::OVERFLOW_FLAG) || !has(r, RFlags::AUXILIARY_CARRY_FLAG) {
        bad("OVERFLOW/AUX(after 0x7f+1)", r);
    }
    let r = raw_flags_after(6);
    if !has(r, RFlags::DIRECTION_FLAG) {
        bad("DIRECTION_FLAG(after std)", r);
    }
    let r = raw_flags_after(7);
    if has(r, RFlags::DIRECTION_FLAG) || !has(r, RFlags::INTERRUPT_FLAG) {
        bad("DIRECTION/INTERRUPT(user mode has IF=1)", r);
    }
    rep.evals(8);
    rep.class("cpu|rflags");
}

fn mxcsr_after(op: u32, ctl: u32) -> (u32, f32, i32) {
    // run one SSE operation under control word `ctl` (all exceptions masked), return (status|control, float result, int result)
    let mut saved: u32 = 0;
    let mut out: u32 = 0;
    let res: f32;
    let ires: i32;
    let (a, b2): (f32, f32) = match op {
        0 => (0.0, 0.0),                         // 0/0 -> invalid
        1 => (1.0, 0.0),                         // 1/0 -> divide by zero
        2 => (3.0e38, 3.0e38),                   // mul overflow
        3 => (1.0e-30, 1.0e-30),                 // mul underflow
        4 => (1.0, 3.0),                         // 1/3 inexact
        5 => (f32::from_bits(1), 1.0),           // denormal operand (mul)
        6 => (1.5, 0.0),                         // cvt 1.5
        _ => (-1.5, 0.0),                        // cvt -1.5
    };
    unsafe {
        asm!(
            "stmxcsr [{saved}]",
            "ldmxcsr [{ctl}]",
            "movss {x}, [{a}]",
            "movss {y}, [{b}]",
            "cmp {op:e}, 1",
            "jbe 2f",
            "cmp {op:e}, 4",
            "je 2f",
            "cmp {op:e}, 6",
            "jae 3f",
            "mulss {x}, {y}",
            "jmp 4f",
            "2:",
            "divss {x}, {y}",
            "jmp 4f",
            "3:",
            "cvtss2si {i:e}, {x}",
            "4:",
            "stmxcsr [{out}]",
            "ldmxcsr [{saved}]",
            saved = in(reg) &mut saved,
            ctl = in(reg) &ctl,
            out = in(reg) &mut out,
            a = in(reg) &a,
            b = in(reg) &b2,
            op = in(reg) op,
            i = out(reg) ires,
            x = out(xmm_reg) res,
            y = out(xmm_reg) _,
        );
    }
    (out, res, ires)
}

fn cpu_mxcsr(rep: &mut Report) {
    const MASKS: u32 = 0x1f80;
    let st = |op| mxcsr_after(op, MASKS).0;
    let chk = |rep: &mut Report, name: &str, flag: MxCsr, raw: u32, want: bool| {
        rep.eval();
        if MxCsr::from_bits_truncate(raw).contains(flag) != want {
            rep.violation(&format!("MxCsr::{}|disagrees-with-cpu", name), J::hex(raw as u64));
        }
    };
    chk(rep, "INVALID_OPERATION(0/0)", MxCsr::INVALID_OPERATION, st(0), true);
    chk(rep, "DIVIDE_BY_ZERO(1/0)", MxCsr::DIVIDE_BY_ZERO, st(1), true);
    chk(rep, "INVALID_OPERATION(1/0)", MxCsr::INVALID_OPERATION, st(1), false);
    chk(rep, "OVERFLOW(3e38*3e38)", MxCsr::OVERFLOW, st(2), true);
    chk(rep, "PRECISION(3e38*3e38)", MxCsr::PRECISION, st(2), true);
    chk(rep, "UNDERFLOW(1e-30*1e-30)", MxCsr::UNDERFLOW, st(3), true);
    chk(rep, "PRECISION(1/3)", MxCsr::PRECISION, st(4), true);
    chk(rep, "DIVIDE_BY_ZERO(1/3)", MxCsr::DIVIDE_BY_ZERO, st(4), false);
    chk(rep, "DENORMAL(denormal operand)", MxCsr::DENORMAL, st(5), true);
    // mask bits: they read back as set
    let raw = st(4);
    for (n, f) in [("INVALID_OPERATION_MASK", MxCsr::INVALID_OPERATION_MASK), ("DENORMAL_MASK", MxCsr::DENORMAL_MASK), ("DIVIDE_BY_ZERO_MASK", MxCsr::DIVIDE_BY_ZERO_MASK), ("OVERFLOW_MASK", MxCsr::OVERFLOW_MASK), ("UNDERFLOW_MASK", MxCsr::UNDERFLOW_MASK), ("PRECISION_MASK", MxCsr::PRECISION_MASK)] {
        chk(rep, n, f, raw, true);
    }
    // rounding control by its effect on cvtss2si(1.5), cvtss2si(-1.5)
    let rc = |ctl: MxCsr| (mxcsr_after(6, MASKS | ctl.bits()).2, mxcsr_after(7, MASKS | ctl.bits()).2);
    rep.evals(4);
    if rc(MxCsr::empty()) != (2, -2) {
        rep.violation("MxCsr::(round-to-nearest)|disagrees-with-cpu", J::s(format!("{:?}", rc(MxCsr::empty()))));
    }
    if rc(MxCsr::ROUNDING_CONTROL_NEGATIVE) != (1, -2) {
        rep.violation("MxCsr::ROUNDING_CONTROL_NEGATIVE|disagrees-with-cpu", J::s(format!("{:?}", rc(MxCsr::ROUNDING_CONTROL_NEGATIVE))));
    }
    if rc(MxCsr::ROUNDING_CONTROL_POSITIVE) != (2, -1) {
        rep.violation("MxCsr::ROUNDING_CONTROL_POSITIVE|disagrees-with-cpu", J::s(format!("{:?}", rc(MxCsr::ROUNDING_CONTROL_POSITIVE))));
    }
    if rc(MxCsr::ROUNDING_CONTROL_ZERO) != (1, -1) {
        rep.violation("MxCsr::ROUNDING_CONTROL_ZERO|disagrees-with-cpu", J::s(format!("{:?}", rc(MxCsr::ROUNDING_CONTROL_ZERO))));
    }
    // FTZ: a denormal result is flushed to zero; DAZ: a denormal operand is treated as zero (no DE flag)
    rep.evals(3);
    let tiny = |ctl: u32| -> (u32, f32) {
        // 1e-20 * 1e-20 = 1e-40 (denormal)
        let (a, b2): (f32, f32) = (1.0e-20, 1.0e-20);
        let mut saved: u32 = 0;
        let mut out: u32 = 0;
        let res: f32;
        unsafe {
            asm!("stmxcsr [{saved}]", "ldmxcsr [{ctl}]", "movss {x}, [{a}]", "mulss {x}, [{b}]", "stmxcsr [{out}]", "ldmxcsr [{saved}]",
                saved = in(reg) &mut saved, ctl = in(reg) &ctl, out = in(reg) &mut out, a = in(reg) &a, b = in(reg) &b2, x = out(xmm_reg) res);
        }
        (out, res)
    };
    let (_, r0) = tiny(MASKS);
    let (_, r1) = tiny(MASKS | MxCsr::FLUSH_TO_ZERO.bits());
    if !(r0 > 0.0 && r0 < f32::MIN_POSITIVE) || r1 != 0.0 {
        rep.violation("MxCsr::FLUSH_TO_ZERO|disagrees-with-cpu", J::s(format!("without={:e} with={:e}", r0, r1)));
    }
    let de_without = mxcsr_after(5, MASKS).0 & 2 != 0;
    let de_with = mxcsr_after(5, MASKS | MxCsr::DENORMALS_ARE_ZEROS.bits()).0 & 2 != 0;
    if !de_without || de_with {
        rep.violation("MxCsr::DENORMALS_ARE_ZEROS|disagrees-with-cpu", J::s(format!("DE without={} with={}", de_without, de_with)));
    }
    rep.class("cpu|mxcsr-status");
    rep.class("cpu|mxcsr-rounding");
    rep.class("cpu|mxcsr-ftz-daz");
}

fn codecs(rep: &mut Report, r: &mut Rng, thorough: bool) {
    // SegmentSelector: all u16
    for s in 0..=u16::MAX {
        rep.eval();
        let sel = SegmentSelector(s);
        let ok = sel.index() == s >> 3 && sel.rpl() as u16 == s & 3;
        let mut ok2 = true;
        for rpl in 0..4u16 {
            let mut t = sel;
            t.set_rpl(PrivilegeLevel::from_u16(rpl));
            ok2 &= t.0 == (s & !3) | rpl;
        }
        let idx = s >> 3;
        let n = SegmentSelector::new(idx, PrivilegeLevel::from_u16(s & 3));
        if !ok || !ok2 || n.0 != (idx << 3) | (s & 3) || n.index() != idx {
            rep.violation("SegmentSelector|codec-wrong", J::hex(s as u64));
            break;
        }
    }
    rep.exhaustive.push("SegmentSelector index/rpl/set_rpl/new: all u16 selectors x 4 RPLs".into());
    rep.class("codec|SegmentSelector");
    // PrivilegeLevel::from_u16: all u16
    for v in 0..=u16::MAX {
        rep.eval();
        match catch(|| PrivilegeLevel::from_u16(v)) {
            Ok(p) => {
                if v > 3 || p as u16 != v {
                    rep.violation("PrivilegeLevel::from_u16|accepted-or-wrong", J::U(v as u64));
                    break;
                }
            }
            Err(()) => {
                if v <= 3 {
                    rep.violation("PrivilegeLevel::from_u16|rejected-valid", J::U(v as u64));
                    break;
                }
            }
        }
    }
    rep.class("codec|PrivilegeLevel");
    // Pcid::new: all u16
    for v in 0..=u16::MAX {
        rep.eval();
        match Pcid::new(v) {
            Ok(p) => {
                if v >= 4096 || p.value() != v {
                    rep.violation("Pcid::new|accepted-or-wrong", J::U(v as u64));
                    break;
                }
            }
            Err(e) => {
                if v < 4096 {
                    rep.violation("Pcid::new|rejected-valid", J::U(v as u64));
                    break;
                }
                // the error names the value that was refused
                if format!("{:?}", e) != format!("PcidTooBig({})", v) {
                    rep.violation("Pcid::new|error-names-another-value", J::obj(vec![("value", J::U(v as u64)), ("error", J::s(format!("{:?}", e)))]));
                    break;
                }
            }
        }
    }
    rep.class("codec|Pcid");
    // u8 codecs
    const VECTORS: [u8; 23] = [0, 1, 2, 3, 4, 5, 6, 7, 8, 10, 11, 12, 13, 14, 16, 17, 18, 19, 20, 21, 28, 29, 30];
    for v in 0..=u8::MAX {
        rep.evals(3);
        match ExceptionVector::try_from(v) {
            Ok(e) => {
                if !VECTORS.contains(&v) || e as u8 != v {
                    rep.violation("ExceptionVector::try_from|accepted-or-wrong", J::U(v as u64));
                }
            }
            Err(_) => {
                if VECTORS.contains(&v) {
                    rep.violation("ExceptionVector::try_from|rejected-valid", J::U(v as u64));
                }
            }
        }
        match PatMemoryType::from_bits(v) {
            Some(t) => {
                if ![0u8, 1, 4, 5, 6, 7].contains(&v) || t.bits() != v {
                    rep.violation("PatMemoryType::from_bits|accepted-or-wrong", J::U(v as u64));
                }
            }
            None => {
                if [0u8, 1, 4, 5, 6, 7].contains(&v) {
                    rep.violation("PatMemoryType::from_bits|rejected-valid", J::U(v as u64));
                }
            }
        }
        match DebugAddressRegisterNumber::new(v) {
            Some(n) => {
                if v > 3 || n.get() != v {
                    rep.violation("DebugAddressRegisterNumber::new|accepted-or-wrong", J::U(v as u64));
                }
            }
            None => {
                if v <= 3 {
                    rep.violation("DebugAddressRegisterNumber::new|rejected-valid", J::U(v as u64));
                }
            }
        }
    }
    rep.exhaustive.push("all u16 for PrivilegeLevel::from_u16 and Pcid::new; all u8 for ExceptionVector::try_from, PatMemoryType::from_bits, DebugAddressRegisterNumber::new".into());
    rep.class("codec|u8-codecs");
    // breakpoint condition / size
    for v in 0..4096u64 {
        rep.evals(3);
        let v = if v < 2048 { v } else { r.next() };
        let c = BreakpointCondition::from_bits(v);
        if (v < 4) != c.is_some() || c.map(|c| c as u64 != v).unwrap_or(false) {
            rep.violation("BreakpointCondition::from_bits|wrong", J::hex(v));
        }
        let s = BreakpointSize::from_bits(v);
        if (v < 4) != s.is_some() || s.map(|s| s as u64 != v).unwrap_or(false) {
            rep.violation("BreakpointSize::from_bits|wrong", J::hex(v));
        }
        let n = BreakpointSize::new(v as usize);
        let exp = match v {
            1 => Some(0u8),
            2 => Some(1),
            8 => Some(2),
            4 => Some(3),
            _ => None,
        };
        if n.map(|x| x as u8) != exp {
            rep.violation("BreakpointSize::new|wrong", J::hex(v));
        }
    }
    rep.class("codec|breakpoint");
    // Dr7Value: 4 registers x 4 conditions x 4 sizes x all 4096 flag subsets
    let flag_bits: [u32; 12] = [0, 1, 2, 3, 4, 5, 6, 7, 8, 9, 11, 13];
    let subsets = if thorough { 4096 } else { 512 };
    for sub in 0..subsets {
        let sub = if thorough { sub } else { (sub * 8 + (sub % 8)) % 4096 };
        let mut fl = 0u64;
        for (k, &bit) in flag_bits.iter().enumerate() {
            if (sub >> k) & 1 == 1 {
                fl |= 1 << bit;
            }
        }
        let other_fields = r.next() & 0xffff_0000;
        for n in 0..4u8 {
            let reg = DebugAddressRegisterNumber::new(n).unwrap();
            for c in 0..4u64 {
                for s in 0..4u64 {
                    rep.eval();
                    let start = fl | other_fields;
                    let mut v = match Dr7Value::from_bits(start) {
                        Some(v) => v,
                        None => {
                            rep.violation("Dr7Value::from_bits|rejected-valid-bits", J::hex(start));
                            return;
                        }
                    };
                    let cond = BreakpointCondition::from_bits(c).unwrap();
                    let size = BreakpointSize::from_bits(s).unwrap();
                    v.set_condition(reg, cond);
                    let clsb = 16 + 4 * n as u64;
                    let exp1 = (start & !(3 << clsb)) | (c << clsb);
                    let mut ok = v.bits() == exp1;
                    v.set_size(reg, size);
                    let slsb = 18 + 4 * n as u64;
                    let exp2 = (exp1 & !(3 << slsb)) | (s << slsb);
                    ok &= v.bits() == exp2;
                    ok &= v.condition(reg) == cond && v.size(reg) == size && v.flags().bits() == fl;
                    if !ok {
                        rep.violation("Dr7Value|field-setter-touches-other-bits-or-reads-back-wrong", J::obj(vec![("start", J::hex(start)), ("register", J::U(n as u64)), ("condition", J::U(c)), ("size", J::U(s)), ("bits", J::hex(v.bits()))]));
                        return;
                    }
                }
            }
        }
        // flag manipulation does not touch the fields
        let mut v = Dr7Value::from_bits_truncate(other_fields);
        v.insert_flags(Dr7Flags::from_bits_truncate(fl));
        let mut ok = v.bits() == other_fields | fl;
        v.toggle_flags(Dr7Flags::from_bits_truncate(fl));
        ok &= v.bits() == other_fields;
        v.set_flags(Dr7Flags::from_bits_truncate(fl), true);
        ok &= v.bits() == other_fields | fl;
        v.set_flags(Dr7Flags::from_bits_truncate(fl), false);
        ok &= v.bits() == other_fields;
        v.insert_flags(Dr7Flags::from_bits_truncate(fl));
        v.remove_flags(Dr7Flags::from_bits_truncate(fl));
        ok &= v.bits() == other_fields;
        ok &= unsafe { Dr7Value::from_bits_unchecked(other_fields | fl) }.bits() == other_fields | fl;
        if !ok || Dr7Value::from(Dr7Flags::from_bits_truncate(fl)).bits() != fl {
            rep.violation("Dr7Value|flag-operations-touch-field-bits", J::hex(fl));
        }
    }
    // set_flags with flag sets that only partly overlap what is already there: afterwards exactly `present | given`
    // (true) or `present & !given` (false)
    for _ in 0..2000 {
        rep.eval();
        let pick = |r: &mut Rng| -> u64 { flag_bits.iter().fold(0u64, |a, &b| if r.chance(1, 3) { a | (1 << b) } else { a }) };
        let (present, given) = (pick(r), pick(r));
        let fields = r.next() & 0xffff_0000;
        for value in [true, false] {
            let mut v = Dr7Value::from_bits_truncate(fields | present);
            v.set_flags(Dr7Flags::from_bits_truncate(given), value);
            let exp = fields | if value { present | given } else { present & !given };
            if v.bits() != exp {
                rep.violation("Dr7Value::set_flags|not-insert-or-remove-of-exactly-the-given-flags", J::obj(vec![("present", J::hex(present)), ("given", J::hex(given)), ("value", J::Bool(value)), ("expected", J::hex(exp)), ("got", J::hex(v.bits()))]));
                break;
            }
        }
    }
    rep.class("codec|Dr7Value::set_flags-partial-overlap");
    // a Dr7Flags value may carry other bits (from_bits_retain of a raw register image): the conversion keeps only what a Dr7Value can hold
    for _ in 0..500 {
        rep.eval();
        let raw = match r.below(3) { 0 => r.next(), 1 => r.next() | (1 << 10), _ => u64::MAX };
        let flag_mask = flag_bits.iter().fold(0u64, |a, &b| a | (1 << b));
        let v = Dr7Value::from(Dr7Flags::from_bits_retain(raw));
        // (what survives is what a Dr7Value can hold: the flags and the condition / size fields; never a reserved bit)
        if v.bits() != raw & (flag_mask | 0xffff_0000) || Dr7Value::from_bits(v.bits()).is_none() {
            rep.violation("Dr7Value::from(Dr7Flags)|keeps-bits-a-Dr7Value-cannot-hold", J::obj(vec![("flags_raw", J::hex(raw)), ("value", J::hex(v.bits()))]));
            break;
        }
    }
    rep.class("codec|Dr7Value::from(Dr7Flags)");
    // the privilege level of a descriptor is bits 45..46 of its (first) quadword, all four levels
    for i in 0..4096u64 {
        rep.eval();
        let lo = (r.next() & !(3 << 45)) | ((i & 3) << 45);
        let d = if i & 4 == 0 { x86_64::structures::gdt::Descriptor::UserSegment(lo) } else { x86_64::structures::gdt::Descriptor::SystemSegment(lo, r.next()) };
        if d.dpl() as u64 != i & 3 {
            rep.violation("Descriptor::dpl|not-bits-45-46", J::obj(vec![("low_quadword", J::hex(lo)), ("dpl()", J::U(d.dpl() as u64))]));
            break;
        }
    }
    rep.class("codec|Descriptor::dpl");
    if thorough {
        rep.exhaustive.push("Dr7Value: 4 registers x 4 conditions x 4 sizes x all 4096 flag subsets".into());
    }
    rep.class("codec|Dr7Value");
    // from_bits accepts exactly the values without invalid bits
    const DR7_VALID: u64 = 0xffff_0000 | 0x3ff | (1 << 11) | (1 << 13);
    for k in 0..64 {
        rep.eval();
        let v = 1u64 << k;
        if Dr7Value::from_bits(v).is_some() != (v & !DR7_VALID == 0) || Dr7Value::from_bits_truncate(v).bits() != v & DR7_VALID {
            rep.violation("Dr7Value::from_bits|valid-bit-set-wrong", J::U(k));
        }
    }
    for n in 0..4u8 {
        let reg = DebugAddressRegisterNumber::new(n).unwrap();
        if Dr6Flags::trap(reg).bits() != 1 << n || Dr7Flags::local_breakpoint_enable(reg).bits() != 1 << (2 * n) || Dr7Flags::global_breakpoint_enable(reg).bits() != 1 << (2 * n + 1) {
            rep.violation("Dr6Flags::trap/Dr7Flags::*_breakpoint_enable|wrong-bit", J::U(n as u64));
        }
    }
    // SelectorErrorCode
    let n = if thorough { 1_000_000 } else { 100_000 };
    for i in 0..(65536 + n) {
        rep.eval();
        let v: u64 = if i < 65536 { i } else { crate::gen::u64_edge(r).0 };
        let c = SelectorErrorCode::new(v);
        if c.is_some() != (v <= 0xffff) {
            rep.violation("SelectorErrorCode::new|range-check-wrong", J::hex(v));
            break;
        }
        let t = SelectorErrorCode::new_truncate(v);
        let w = v & 0xffff;
        let tbl = match (w >> 1) & 3 {
            0 => DescriptorTable::Gdt,
            2 => DescriptorTable::Ldt,
            _ => DescriptorTable::Idt,
        };
        if t.external() != (w & 1 == 1) || t.descriptor_table() != tbl || t.index() != w >> 3 || t.is_null() != (w == 0) || c.map(|c| c != t).unwrap_or(false) {
            rep.violation("SelectorErrorCode|fields-wrong", J::hex(v));
            break;
        }
    }
    rep.exhaustive.push("SelectorErrorCode: all 16-bit codes".into());
    rep.class("codec|SelectorErrorCode");
}

pub fn run(a: &Args, rep: &mut Report) {
    let mut r = Rng::derive(a.seed, "c19", a.shard);
    let t = table();
    let mut shown = 0;
    for (name, got, want) in t.iter() {
        rep.eval();
        if got != want {
            rep.violation(&format!("{}|differs-from-manual", name), J::obj(vec![("crate", J::hex(*got)), ("manual", J::hex(*want))]));
        }
        rep.class(&format!("const|{}", name));
        if shown < 4 {
            rep.sample(J::obj(vec![("constant", J::s(*name)), ("crate", J::hex(*got)), ("manual", J::hex(*want))]));
            shown += 1;
        }
    }
    rep.count("constants_in_table", t.len() as u64);
    rep.exhaustive.push(format!("{} public constants compared with the manual-derived table", t.len() + 11));
    #[cfg(not(miri))]
    {
        msr_numbers(rep);
        cpu_rflags(rep);
        cpu_mxcsr(rep);
    }
    if a.shard == 0 || a.thorough() {
        codecs(rep, &mut r, a.thorough());
    }
}
