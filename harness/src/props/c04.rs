//! C04 — virtual address <-> page-table indices is an exact bijection.
//!
//! Oracle: independent shifts and masks; exhaustive sub-spaces for the index constructors and for
//! the 1 GiB / 2 MiB index tuples.

use crate::gen::{self, sign_extend48};
use crate::util::{catch, Args, Report, Rng, J};
use x86_64::structures::paging::page_table::PageTableLevel;
use x86_64::structures::paging::{Page, PageOffset, PageTableIndex, Size1GiB, Size2MiB, Size4KiB};
use x86_64::VirtAddr;

#[inline]
fn idx(va: u64, level: u32) -> u16 {
    ((va >> (12 + 9 * (level - 1))) & 0x1ff) as u16
}

const LEVELS: [PageTableLevel; 4] = [
    PageTableLevel::One,
    PageTableLevel::Two,
    PageTableLevel::Three,
    PageTableLevel::Four,
];

/// every accessor answers for every canonical address: a panic is a finding, not a harness error
fn forward(rep: &mut Report, x: u64, cls: &str) {
    if let Err(m) = crate::util::catch_msg(std::panic::AssertUnwindSafe(|| forward_inner(&mut *rep, x, cls))) {
        rep.violation(&format!("index-accessor|panicked|{}", crate::gen::half(x)), J::obj(vec![("addr", J::hex(x)), ("panic", J::s(m))]));
    }
}

fn forward_inner(rep: &mut Report, x: u64, cls: &str) {
    rep.eval();
    let v = VirtAddr::new(x);
    let exp = [idx(x, 1), idx(x, 2), idx(x, 3), idx(x, 4)];
    let got = [
        u16::from(v.p1_index()),
        u16::from(v.p2_index()),
        u16::from(v.p3_index()),
        u16::from(v.p4_index()),
    ];
    let ctx = || {
        J::obj(vec![
            ("addr", J::hex(x)),
            ("expected_p1_p4", J::A(exp.iter().map(|&e| J::U(e as u64)).collect())),
            ("got_p1_p4", J::A(got.iter().map(|&e| J::U(e as u64)).collect())),
        ])
    };
    for l in 0..4 {
        if got[l] != exp[l] {
            rep.violation(&format!("VirtAddr::p{}_index|wrong-bitfield", l + 1), ctx());
        }
        let by_level = v.page_table_index(LEVELS[l]);
        if u16::from(by_level) != exp[l] {
            rep.violation(&format!("VirtAddr::page_table_index(level{})|wrong-bitfield", l + 1), ctx());
        }
        // conversions agree
        let pi = v.page_table_index(LEVELS[l]);
        if u64::from(pi) != exp[l] as u64 || usize::from(pi) != exp[l] as usize || u32::from(pi) != exp[l] as u32 {
            rep.violation("PageTableIndex::into|conversions-disagree", ctx());
        }
    }
    let off = v.page_offset();
    if u16::from(off) != (x & 0xfff) as u16 || u64::from(off) != x & 0xfff || usize::from(off) != (x & 0xfff) as usize || u32::from(off) != (x & 0xfff) as u32 {
        rep.violation("VirtAddr::page_offset|wrong-bitfield", ctx());
    }
    // pages of every size agree with the address
    let p4k = Page::<Size4KiB>::containing_address(v);
    let p2m = Page::<Size2MiB>::containing_address(v);
    let p1g = Page::<Size1GiB>::containing_address(v);
    if u16::from(p4k.p4_index()) != exp[3]
        || u16::from(p4k.p3_index()) != exp[2]
        || u16::from(p4k.p2_index()) != exp[1]
        || u16::from(p4k.p1_index()) != exp[0]
    {
        rep.violation("Page<4K>::pN_index|wrong", ctx());
    }
    if u16::from(p2m.p4_index()) != exp[3] || u16::from(p2m.p3_index()) != exp[2] || u16::from(p2m.p2_index()) != exp[1] {
        rep.violation("Page<2M>::pN_index|wrong", ctx());
    }
    if u16::from(p1g.p4_index()) != exp[3] || u16::from(p1g.p3_index()) != exp[2] {
        rep.violation("Page<1G>::pN_index|wrong", ctx());
    }
    for l in 0..4 {
        if u16::from(p4k.page_table_index(LEVELS[l])) != exp[l] {
            rep.violation("Page<4K>::page_table_index|wrong", ctx());
        }
        // for huge pages the lower indices of the *start address* are zero
        let e2 = if l == 0 { 0 } else { exp[l] };
        if u16::from(p2m.page_table_index(LEVELS[l])) != e2 {
            rep.violation("Page<2M>::page_table_index|wrong", ctx());
        }
        let e1 = if l <= 1 { 0 } else { exp[l] };
        if u16::from(p1g.page_table_index(LEVELS[l])) != e1 {
            rep.violation("Page<1G>::page_table_index|wrong", ctx());
        }
    }
    // inverse on the same address
    let back = Page::from_page_table_indices(v.p4_index(), v.p3_index(), v.p2_index(), v.p1_index());
    if back.start_address().as_u64() != x & !0xfff {
        rep.violation("Page::from_page_table_indices|not-inverse-of-indices", ctx());
    }
    rep.class(&format!("fwd|{}|{}|p4={}", cls, gen::half(x), if exp[3] == 0 { "0" } else if exp[3] == 511 { "511" } else if exp[3] < 256 { "lo" } else { "hi" }));
}

#[inline]
fn inv_4k(rep: &mut Report, p4: u16, p3: u16, p2: u16, p1: u16) {
    let exp = sign_extend48(((p4 as u64) << 39) | ((p3 as u64) << 30) | ((p2 as u64) << 21) | ((p1 as u64) << 12));
    let pg = Page::from_page_table_indices(
        PageTableIndex::new(p4),
        PageTableIndex::new(p3),
        PageTableIndex::new(p2),
        PageTableIndex::new(p1),
    );
    let got = pg.start_address().as_u64();
    if got != exp
        || u16::from(pg.p4_index()) != p4
        || u16::from(pg.p3_index()) != p3
        || u16::from(pg.p2_index()) != p2
        || u16::from(pg.p1_index()) != p1
    {
        rep.violation(
            "Page::from_page_table_indices|wrong-page",
            J::obj(vec![
                ("indices", J::A(vec![J::U(p4 as u64), J::U(p3 as u64), J::U(p2 as u64), J::U(p1 as u64)])),
                ("expected", J::hex(exp)),
                ("got", J::hex(got)),
            ]),
        );
    }
}

#[inline]
fn inv_2m(rep: &mut Report, p4: u16, p3: u16, p2: u16) {
    let exp = sign_extend48(((p4 as u64) << 39) | ((p3 as u64) << 30) | ((p2 as u64) << 21));
    let pg = Page::from_page_table_indices_2mib(PageTableIndex::new(p4), PageTableIndex::new(p3), PageTableIndex::new(p2));
    let got = pg.start_address().as_u64();
    if got != exp || u16::from(pg.p4_index()) != p4 || u16::from(pg.p3_index()) != p3 || u16::from(pg.p2_index()) != p2 {
        rep.violation(
            "Page::from_page_table_indices_2mib|wrong-page",
            J::obj(vec![
                ("indices", J::A(vec![J::U(p4 as u64), J::U(p3 as u64), J::U(p2 as u64)])),
                ("expected", J::hex(exp)),
                ("got", J::hex(got)),
            ]),
        );
    }
}

#[inline]
fn inv_1g(rep: &mut Report, p4: u16, p3: u16) {
    let exp = sign_extend48(((p4 as u64) << 39) | ((p3 as u64) << 30));
    let pg = Page::from_page_table_indices_1gib(PageTableIndex::new(p4), PageTableIndex::new(p3));
    let got = pg.start_address().as_u64();
    if got != exp || u16::from(pg.p4_index()) != p4 || u16::from(pg.p3_index()) != p3 {
        rep.violation(
            "Page::from_page_table_indices_1gib|wrong-page",
            J::obj(vec![
                ("indices", J::A(vec![J::U(p4 as u64), J::U(p3 as u64)])),
                ("expected", J::hex(exp)),
                ("got", J::hex(got)),
            ]),
        );
    }
}

fn level_helpers(rep: &mut Report) {
    use PageTableLevel::*;
    let lower = [None, Some(One), Some(Two), Some(Three)];
    let higher = [Some(Two), Some(Three), Some(Four), None];
    for l in 0..4usize {
        rep.eval();
        let lv = LEVELS[l];
        if lv as u8 != (l + 1) as u8 {
            rep.violation("PageTableLevel|discriminant", J::U(l as u64));
        }
        if lv.next_lower_level() != lower[l] {
            rep.violation("PageTableLevel::next_lower_level|wrong", J::U(l as u64 + 1));
        }
        if lv.next_higher_level() != higher[l] {
            rep.violation("PageTableLevel::next_higher_level|wrong", J::U(l as u64 + 1));
        }
        // a table of level L spans 512 entries of 2^(12+9(L-1)) bytes
        let entry = 1u64 << (12 + 9 * l);
        let table = entry << 9;
        if lv.entry_address_space_alignment() != entry {
            rep.violation("PageTableLevel::entry_address_space_alignment|wrong", J::U(l as u64 + 1));
        }
        if lv.table_address_space_alignment() != table {
            rep.violation("PageTableLevel::table_address_space_alignment|wrong", J::U(l as u64 + 1));
        }
        rep.class(&format!("level|{}", l + 1));
    }
}

fn index_ctors(rep: &mut Report, sw0: usize, sw: usize) {
    for x in (0..=u16::MAX).skip(sw0).step_by(sw) {
        rep.evals(4);
        match catch(|| PageTableIndex::new(x)) {
            Ok(i) => {
                if x >= 512 || u16::from(i) != x {
                    rep.violation("PageTableIndex::new|accepted-or-altered", J::U(x as u64));
                }
            }
            Err(()) => {
                if x < 512 {
                    rep.violation("PageTableIndex::new|panicked-on-valid", J::U(x as u64));
                }
            }
        }
        let t = u16::from(PageTableIndex::new_truncate(x));
        if t != x % 512 || t >= 512 {
            rep.violation("PageTableIndex::new_truncate|wrong", J::U(x as u64));
        }
        match catch(|| PageOffset::new(x)) {
            Ok(i) => {
                if x >= 4096 || u16::from(i) != x {
                    rep.violation("PageOffset::new|accepted-or-altered", J::U(x as u64));
                }
            }
            Err(()) => {
                if x < 4096 {
                    rep.violation("PageOffset::new|panicked-on-valid", J::U(x as u64));
                }
            }
        }
        let t = u16::from(PageOffset::new_truncate(x));
        if t != x % 4096 || t >= 4096 {
            rep.violation("PageOffset::new_truncate|wrong", J::U(x as u64));
        }
    }
    rep.class("ctor|index-valid");
    rep.class("ctor|index-invalid-panic");
    rep.class("ctor|offset-valid");
    rep.class("ctor|offset-invalid-panic");
    // no way of producing an index leaves 0..512: stepping (checked, panicking and open-ended ranges), all starts x counts
    // around the edges
    use core::iter::Step;
    for s in (0..512u16).filter(|s| *s < 4 || *s > 507 || s % 37 == 0) {
        let is = PageTableIndex::new(s);
        for n in [0usize, 1, 2, 3, 511 - s as usize, 512 - s as usize, 513 - s as usize, s as usize, s as usize + 1, 512, 65535, 65536, 65536 + 511 - s as usize, usize::MAX] {
            rep.eval();
            let outs: [Result<Option<u16>, ()>; 4] = [
                catch(|| Step::forward_checked(is, n).map(u16::from)),
                catch(|| Step::backward_checked(is, n).map(u16::from)),
                catch(|| Some(u16::from(Step::forward(is, n)))),
                catch(|| Some(u16::from(Step::backward(is, n)))),
            ];
            for (k, o) in outs.iter().enumerate() {
                if let Ok(Some(v)) = o {
                    if *v >= 512 {
                        rep.violation(&format!("PageTableIndex|{}|index-left-0..512", ["forward_checked", "backward_checked", "Step::forward", "Step::backward"][k]), J::obj(vec![("start", J::U(s as u64)), ("count", J::hex(n as u64)), ("got", J::U(*v as u64))]));
                    }
                }
            }
        }
        // an open-ended range of indices stops (or panics) at 511; it never yields 512
        let got = catch(|| (is..).take(520 - s as usize).map(u16::from).collect::<Vec<u16>>());
        if let Ok(v) = got {
            if v.iter().any(|&x| x >= 512) {
                rep.violation("PageTableIndex|RangeFrom|index-left-0..512", J::obj(vec![("start", J::U(s as u64))]));
            }
        }
    }
    rep.class("index|stepping-stays-in-range");
    if sw == 1 {
        rep.exhaustive.push("all u16 for PageTableIndex::{new,new_truncate}, PageOffset::{new,new_truncate}".into());
    }
}

/// every function of this property answers for every input of its domain: a panic anywhere in the sweep is a finding
/// (it ends the sweep of this shard)
pub fn run(a: &Args, rep: &mut Report) {
    if let Err(m) = crate::util::catch_msg(std::panic::AssertUnwindSafe(|| run_inner(a, &mut *rep))) {
        rep.violation("index-or-page-function|panicked-on-an-input-of-its-domain", J::obj(vec![("panic", J::s(m)), ("profile", J::s(crate::util::profile_name()))]));
    }
}

fn run_inner(a: &Args, rep: &mut Report) {
    let mut r = Rng::derive(a.seed, "c04", a.shard);
    if a.shard == 0 {
        level_helpers(rep);
        let (sw0, sw) = a.sweep();
        index_ctors(rep, sw0, sw);
    }
    let (sw0, sw) = a.sweep();
    // --- exhaustive 1 GiB tuples (512^2), sharded by p4
    for p4 in (0..512u16).skip(sw0).step_by(sw) {
        if (p4 as u64) % a.nshards != a.shard {
            continue;
        }
        for p3 in (0..512u16).skip(sw0).step_by(sw) {
            inv_1g(rep, p4, p3);
        }
        rep.evals(512 / sw as u64);
    }
    if sw == 1 {
        rep.exhaustive.push("all 512^2 (p4,p3) for from_page_table_indices_1gib".into());
    }
    rep.class("inv|1G|exhaustive");
    // --- 2 MiB tuples: thorough = all 512^3, quick = 512 x 64 x 64 stride + edges
    if a.thorough() && sw == 1 {
        for p4 in 0..512u16 {
            if (p4 as u64) % a.nshards != a.shard {
                continue;
            }
            for p3 in 0..512u16 {
                for p2 in 0..512u16 {
                    inv_2m(rep, p4, p3, p2);
                }
            }
            rep.evals(512 * 512);
        }
        rep.exhaustive.push("all 512^3 (p4,p3,p2) for from_page_table_indices_2mib".into());
    } else {
        for p4 in (0..512u16).skip(sw0).step_by(sw) {
            if (p4 as u64) % a.nshards != a.shard {
                continue;
            }
            for a3 in (0..64u16).skip(sw0 % 7).step_by(if sw == 1 { 1 } else { 7 }) {
                for a2 in (0..64u16).skip(sw0 % 5).step_by(if sw == 1 { 1 } else { 5 }) {
                    let p3 = (a3 * 8 + (p4 & 7)) & 511;
                    let p2 = (a2 * 8 + ((p4 >> 3) & 7)) & 511;
                    inv_2m(rep, p4, p3, p2);
                }
            }
            rep.evals(64 * 64);
        }
    }
    rep.class("inv|2M");
    // --- 4 KiB: every index exhaustively with the other three from the collision universe
    let uni = gen::IDX_UNIVERSE;
    for pos in 0..4 {
        for v in (0..512u16).skip(sw0).step_by(sw) {
            if (v as u64) % a.nshards != a.shard {
                continue;
            }
            for &x in uni.iter() {
                for &y in uni.iter() {
                    for &z in uni.iter() {
                        let t = match pos {
                            0 => (v, x, y, z),
                            1 => (x, v, y, z),
                            2 => (x, y, v, z),
                            _ => (x, y, z, v),
                        };
                        inv_4k(rep, t.0, t.1, t.2, t.3);
                    }
                }
            }
            rep.evals(512);
        }
        rep.class(&format!("inv|4K|pos{}-exhaustive", pos));
    }
    if sw == 1 {
        rep.exhaustive.push("4K: each index position over all 512 values x 8^3 universe of the others".into());
    }
    let n = a.budget(1_000_000, 200_000_000);
    for _ in 0..n {
        let x = r.next();
        inv_4k(rep, (x & 511) as u16, ((x >> 9) & 511) as u16, ((x >> 18) & 511) as u16, ((x >> 27) & 511) as u16);
    }
    rep.evals(n);
    rep.class("inv|4K|random");
    // --- forward direction
    for &e in gen::EDGES.iter() {
        for d in 0..3u64 {
            for s in [e.wrapping_add(d), e.wrapping_sub(d)] {
                if gen::is_canonical(s) {
                    forward(rep, s, "edge");
                }
            }
        }
    }
    let n = a.budget(4_000_000, 200_000_000);
    for i in 0..n {
        let (x, c) = gen::canon(&mut r);
        forward(rep, x, c);
        if i < 3 {
            let v = VirtAddr::new(x);
            rep.sample(J::obj(vec![
                ("addr", J::hex(x)),
                ("p4", J::U(u16::from(v.p4_index()) as u64)),
                ("p3", J::U(u16::from(v.p3_index()) as u64)),
                ("p2", J::U(u16::from(v.p2_index()) as u64)),
                ("p1", J::U(u16::from(v.p1_index()) as u64)),
                ("offset", J::U(u16::from(v.page_offset()) as u64)),
            ]));
        }
    }
}
