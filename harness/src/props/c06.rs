//! C06 — alignment and containment are exact.  Oracle: u128 rounding.

use crate::gen::{self, is_canonical, sign_extend48};
use crate::util::{catch, Args, Report, Rng, J};
use x86_64::structures::paging::{Page, PageSize, PhysFrame, Size1GiB, Size2MiB, Size4KiB};
use x86_64::{align_down, align_up, PhysAddr, VirtAddr};

fn o(x: Result<u64, ()>) -> J {
    match x {
        Ok(v) => J::hex(v),
        Err(()) => J::s("panic"),
    }
}

/// expected raw align_up: Err = must panic
fn exp_up(x: u64, al: u64, limit: u128) -> Result<u64, ()> {
    if !al.is_power_of_two() {
        return Err(());
    }
    let a = al as u128;
    let up = ((x as u128 + a - 1) / a) * a;
    if up > limit {
        Err(())
    } else {
        Ok(up as u64)
    }
}
fn exp_down(x: u64, al: u64) -> Result<u64, ()> {
    if !al.is_power_of_two() {
        return Err(());
    }
    Ok(x - x % al)
}

fn raw(rep: &mut Report, x: u64, al: u64, ca: &str) {
    rep.eval();
    let ctx = |e: Result<u64, ()>, g: Result<u64, ()>| J::obj(vec![("addr", J::hex(x)), ("align", J::hex(al)), ("expected", o(e)), ("got", o(g))]);
    let e = exp_up(x, al, u64::MAX as u128);
    let g = catch(|| align_up(x, al));
    if e != g {
        let sig = match (e, g) {
            (Ok(_), Ok(_)) => "align_up|wrong-value",
            (Ok(_), Err(_)) => "align_up|spurious-panic",
            _ => "align_up|missing-panic",
        };
        rep.violation(sig, ctx(e, g));
    }
    let e = exp_down(x, al);
    let g = catch(|| align_down(x, al));
    if e != g {
        let sig = match (e, g) {
            (Ok(_), Ok(_)) => "align_down|wrong-value",
            (Ok(_), Err(_)) => "align_down|spurious-panic",
            _ => "align_down|missing-panic",
        };
        rep.violation(sig, ctx(e, g));
    }
    rep.class(&format!("raw|{}|al={}|{}", ca, if al.is_power_of_two() { format!("2^{}", al.trailing_zeros()) } else { "npot".into() }, if exp_up(x, al, u64::MAX as u128).is_ok() { "ok" } else { "panic" }));
}

fn virt<U: Into<u64> + Copy>(rep: &mut Report, x: u64, alu: U, ut: &str) {
    rep.eval();
    let al: u64 = alu.into();
    let v = VirtAddr::new(x);
    let ctx = |e: Result<u64, ()>, g: Result<u64, ()>| J::obj(vec![("type", J::s("VirtAddr")), ("addr", J::hex(x)), ("align", J::hex(al)), ("expected", o(e)), ("got", o(g))]);
    let pot = al.is_power_of_two();
    let small = pot && al <= (1u64 << 47);
    // --- align_down: greatest canonical multiple <= x   (alignments up to 2^47)
    let g = catch(|| v.align_down(alu).as_u64());
    if !pot {
        if g.is_ok() {
            rep.violation("VirtAddr::align_down|missing-panic-npot", ctx(Err(()), g));
        }
    } else if small {
        let e = Ok(x - x % al);
        if g != e {
            rep.violation("VirtAddr::align_down|wrong-value", ctx(e, g));
        }
    } else if let Ok(gv) = g {
        if !is_canonical(gv) {
            rep.violation_for("C03", "VirtAddr::align_down|noncanonical-virt", ctx(Err(()), g));
        }
    }
    // --- align_up: least canonical multiple >= x; panic iff rounded raw value overflows 2^64
    let g = catch(|| v.align_up(alu).as_u64());
    if !pot {
        if g.is_ok() {
            rep.violation("VirtAddr::align_up|missing-panic-npot", ctx(Err(()), g));
        }
    } else if small {
        let e = match exp_up(x, al, u64::MAX as u128) {
            Err(()) => Err(()),
            // the only non-plain case: rounding up out of the lower half lands on the first
            // canonical multiple, 0xffff_8000_0000_0000
            Ok(up) => Ok(if is_canonical(up) { up } else { sign_extend48(up) }),
        };
        if g != e {
            let sig = match (e, g) {
                (Ok(_), Ok(_)) => "VirtAddr::align_up|wrong-value",
                (Ok(_), Err(_)) => "VirtAddr::align_up|spurious-panic",
                _ => "VirtAddr::align_up|missing-panic-overflow",
            };
            rep.violation(sig, ctx(e, g));
        }
    } else if let Ok(gv) = g {
        if !is_canonical(gv) {
            rep.violation_for("C03", "VirtAddr::align_up|noncanonical-virt", ctx(Err(()), g));
        }
    }
    // --- is_aligned
    match catch(|| v.is_aligned(alu)) {
        Ok(b) => {
            if !pot {
                rep.violation("VirtAddr::is_aligned|missing-panic-npot", ctx(Err(()), Ok(b as u64)));
            } else if small && b != (x % al == 0) {
                rep.violation("VirtAddr::is_aligned|wrong", ctx(Ok((x % al == 0) as u64), Ok(b as u64)));
            }
        }
        Err(()) => {
            if pot {
                rep.violation("VirtAddr::is_aligned|spurious-panic", ctx(Ok(0), Err(())));
            }
        }
    }
    rep.class(&format!("virt|{}|{}|al={}", ut, gen::half(x), if pot { format!("2^{}", al.trailing_zeros()) } else { "npot".into() }));
}

fn physa<U: Into<u64> + Copy>(rep: &mut Report, x: u64, alu: U, ut: &str) {
    rep.eval();
    let al: u64 = alu.into();
    let p = PhysAddr::new(x);
    let ctx = |e: Result<u64, ()>, g: Result<u64, ()>| J::obj(vec![("type", J::s("PhysAddr")), ("addr", J::hex(x)), ("align", J::hex(al)), ("expected", o(e)), ("got", o(g))]);
    let e = exp_down(x, al);
    let g = catch(|| p.align_down(alu).as_u64());
    if e != g {
        let sig = match (e, g) {
            (Ok(_), Ok(_)) => "PhysAddr::align_down|wrong-value",
            (Ok(_), Err(_)) => "PhysAddr::align_down|spurious-panic",
            _ => "PhysAddr::align_down|missing-panic",
        };
        rep.violation(sig, ctx(e, g));
    }
    let e = exp_up(x, al, (1u128 << 52) - 1);
    let g = catch(|| p.align_up(alu).as_u64());
    if e != g {
        let sig = match (e, g) {
            (Ok(_), Ok(_)) => "PhysAddr::align_up|wrong-value",
            (Ok(_), Err(_)) => "PhysAddr::align_up|spurious-panic",
            _ => "PhysAddr::align_up|missing-panic",
        };
        rep.violation(sig, ctx(e, g));
    }
    match catch(|| p.is_aligned(alu)) {
        Ok(b) => {
            if !al.is_power_of_two() {
                rep.violation("PhysAddr::is_aligned|missing-panic-npot", ctx(Err(()), Ok(b as u64)));
            } else if b != (x % al == 0) {
                rep.violation("PhysAddr::is_aligned|wrong", ctx(Ok((x % al == 0) as u64), Ok(b as u64)));
            }
        }
        Err(()) => {
            if al.is_power_of_two() {
                rep.violation("PhysAddr::is_aligned|spurious-panic", ctx(Ok(0), Err(())));
            }
        }
    }
    rep.class(&format!("phys|{}|al={}|up={}", ut, if al.is_power_of_two() { format!("2^{}", al.trailing_zeros()) } else { "npot".into() }, if e.is_ok() { "ok" } else { "panic" }));
}

fn contain_page<S: PageSize>(rep: &mut Report, x: u64, tag: &str) {
    rep.eval();
    let v = VirtAddr::new(x);
    let ctx = || J::obj(vec![("type", J::s(format!("Page<{}>", tag))), ("addr", J::hex(x))]);
    let pg = Page::<S>::containing_address(v);
    let s = pg.start_address().as_u64();
    if s % S::SIZE != 0 || s > x || x - s >= S::SIZE {
        rep.violation(&format!("Page<{}>::containing_address|wrong-start", tag), ctx());
    }
    if pg.size() != S::SIZE || Page::<S>::SIZE != S::SIZE {
        rep.violation(&format!("Page<{}>::size|wrong", tag), ctx());
    }
    match Page::<S>::from_start_address(v) {
        Ok(p) => {
            if x % S::SIZE != 0 {
                rep.violation(&format!("Page<{}>::from_start_address|accepted-unaligned", tag), ctx());
            } else if p.start_address().as_u64() != x {
                rep.violation(&format!("Page<{}>::from_start_address|altered", tag), ctx());
            }
        }
        Err(_) => {
            if x % S::SIZE == 0 {
                rep.violation(&format!("Page<{}>::from_start_address|rejected-aligned", tag), ctx());
            }
        }
    }
    // the unchecked twin, called only where its precondition (an aligned address) holds
    if x % S::SIZE == 0 {
        let p = unsafe { Page::<S>::from_start_address_unchecked(v) };
        if p.start_address().as_u64() != x || p != pg {
            rep.violation(&format!("Page<{}>::from_start_address_unchecked|differs-from-checked", tag), ctx());
        }
    }
    rep.class(&format!("page{}|{}|aligned={}", tag, gen::half(x), x % S::SIZE == 0));
}

fn contain_frame<S: PageSize>(rep: &mut Report, x: u64, tag: &str) {
    rep.eval();
    let v = PhysAddr::new(x);
    let ctx = || J::obj(vec![("type", J::s(format!("PhysFrame<{}>", tag))), ("addr", J::hex(x))]);
    let pg = PhysFrame::<S>::containing_address(v);
    let s = pg.start_address().as_u64();
    if s % S::SIZE != 0 || s > x || x - s >= S::SIZE {
        rep.violation(&format!("PhysFrame<{}>::containing_address|wrong-start", tag), ctx());
    }
    if pg.size() != S::SIZE {
        rep.violation(&format!("PhysFrame<{}>::size|wrong", tag), ctx());
    }
    match PhysFrame::<S>::from_start_address(v) {
        Ok(p) => {
            if x % S::SIZE != 0 {
                rep.violation(&format!("PhysFrame<{}>::from_start_address|accepted-unaligned", tag), ctx());
            } else if p.start_address().as_u64() != x {
                rep.violation(&format!("PhysFrame<{}>::from_start_address|altered", tag), ctx());
            }
        }
        Err(_) => {
            if x % S::SIZE == 0 {
                rep.violation(&format!("PhysFrame<{}>::from_start_address|rejected-aligned", tag), ctx());
            }
        }
    }
    if x % S::SIZE == 0 {
        let p = unsafe { PhysFrame::<S>::from_start_address_unchecked(v) };
        if p.start_address().as_u64() != x || p != pg {
            rep.violation(&format!("PhysFrame<{}>::from_start_address_unchecked|differs-from-checked", tag), ctx());
        }
    }
    rep.class(&format!("frame{}|aligned={}", tag, x % S::SIZE == 0));
}

fn near_multiple(r: &mut Rng, al: u64, limit_bits: u32) -> u64 {
    // an address at, just below or just above a multiple of al
    let mask = if limit_bits == 64 { u64::MAX } else { (1u64 << limit_bits) - 1 };
    let base = (r.next() & mask) & !(al.wrapping_sub(1));
    match r.below(5) {
        0 => base,
        1 => base.wrapping_add(1),
        2 => base.wrapping_sub(1),
        3 => base.wrapping_add(r.below(al.max(1))),
        _ => (mask & !(al.wrapping_sub(1))).wrapping_add(r.below(3)).wrapping_sub(1), // near the top multiple
    }
}

pub fn run(a: &Args, rep: &mut Report) {
    let mut r = Rng::derive(a.seed, "c06", a.shard);
    let per = a.budget(64 * 20_000, 64 * 4_000_000) / 64;
    for k in 0..64u32 {
        let al = 1u64 << k;
        for i in 0..per {
            let (x, cx) = if r.chance(1, 2) { (near_multiple(&mut r, al, 64), "near-mult") } else { gen::u64_edge(&mut r) };
            raw(rep, x, al, cx);
            let xv = if is_canonical(x) { x } else { sign_extend48(x) };
            match r.below(4) {
                0 if k < 8 => virt(rep, xv, al as u8, "u8"),
                1 if k < 16 => virt(rep, xv, al as u16, "u16"),
                2 if k < 32 => virt(rep, xv, al as u32, "u32"),
                _ => virt(rep, xv, al, "u64"),
            }
            let xp = if r.chance(1, 2) { near_multiple(&mut r, al, 52) & 0xf_ffff_ffff_ffff } else { x & 0xf_ffff_ffff_ffff };
            match r.below(4) {
                0 if k < 8 => physa(rep, xp, al as u8, "u8"),
                1 if k < 16 => physa(rep, xp, al as u16, "u16"),
                2 if k < 32 => physa(rep, xp, al as u32, "u32"),
                _ => physa(rep, xp, al, "u64"),
            }
            if i == 0 && k % 16 == 3 {
                rep.sample(J::obj(vec![("addr", J::hex(x)), ("align", J::hex(al)), ("exp_up", o(exp_up(x, al, u64::MAX as u128))), ("exp_down", o(exp_down(x, al)))]));
            }
        }
    }
    // non-power-of-two alignments (the panic case), incl. 0
    let n = a.budget(60_000, 20_000_000);
    for i in 0..n {
        let (mut al, _) = gen::u64_edge(&mut r);
        if i % 97 == 0 {
            al = 0;
        }
        if al.is_power_of_two() {
            al = al.wrapping_add(al >> 1).wrapping_add(3);
            if al.is_power_of_two() {
                al = 3;
            }
        }
        let (x, cx) = gen::u64_edge(&mut r);
        raw(rep, x, al, cx);
        virt(rep, sign_extend48(x), al, "u64");
        physa(rep, x & 0xf_ffff_ffff_ffff, al, "u64");
    }
    // containment
    let n = a.budget(300_000, 100_000_000);
    for _ in 0..n {
        let (x, _) = gen::canon(&mut r);
        let x = if r.chance(1, 3) { x & !0xfff } else if r.chance(1, 3) { x & !0x1f_ffff } else if r.chance(1, 4) { x & !0x3fff_ffff } else { x };
        contain_page::<Size4KiB>(rep, x, "4K");
        contain_page::<Size2MiB>(rep, x, "2M");
        contain_page::<Size1GiB>(rep, x, "1G");
        let xp = x & 0xf_ffff_ffff_ffff;
        contain_frame::<Size4KiB>(rep, xp, "4K");
        contain_frame::<Size2MiB>(rep, xp, "2M");
        contain_frame::<Size1GiB>(rep, xp, "1G");
    }
}
