//! C08 — page-table entries and tables encode exactly what was stored, in hardware layout.
//! Oracle: the raw u64 behind an entry / the raw 4096 bytes of a table versus a shadow (addr, flags).

use crate::gen;
use crate::util::{catch, Args, Report, Rng, J};
use x86_64::structures::paging::page_table::{PageTableEntry, PageTableFlags};
use x86_64::structures::paging::{PageTable, PageTableIndex, PhysFrame};
use x86_64::PhysAddr;

const FLAG_BITS: u64 = 0xfff | (0xfff << 52);
const ADDR_BITS: u64 = 0x000f_ffff_ffff_f000;

#[inline]
fn raw(e: &PageTableEntry) -> u64 {
    // PageTableEntry is repr(transparent) over u64
    unsafe { core::ptr::read(e as *const PageTableEntry as *const u64) }
}

fn check_getters(rep: &mut Report, e: &PageTableEntry, exp_raw: u64, log: &Vec<J>, step: usize) -> bool {
    let r = raw(e);
    let ctx = |what: &str| J::obj(vec![("what", J::s(what)), ("expected_raw", J::hex(exp_raw)), ("raw", J::hex(r)), ("step", J::U(step as u64)), ("ops", J::A(log.clone()))]);
    let mut ok = true;
    if r != exp_raw {
        rep.violation("PageTableEntry|raw-differs-from-stored", ctx("raw"));
        ok = false;
    }
    if e.addr().as_u64() != exp_raw & ADDR_BITS {
        rep.violation("PageTableEntry::addr|wrong", ctx("addr"));
        ok = false;
    }
    if e.flags().bits() & FLAG_BITS != exp_raw & FLAG_BITS {
        rep.violation("PageTableEntry::flags|wrong", ctx("flags"));
        ok = false;
    }
    if e.is_unused() != (exp_raw == 0) {
        rep.violation("PageTableEntry::is_unused|wrong", ctx("is_unused"));
        ok = false;
    }
    match e.frame() {
        Ok(f) => {
            if exp_raw & 1 == 0 || f.start_address().as_u64() != exp_raw & ADDR_BITS {
                rep.violation("PageTableEntry::frame|wrong", ctx("frame"));
                ok = false;
            }
        }
        Err(_) => {
            if exp_raw & 1 != 0 {
                rep.violation("PageTableEntry::frame|err-on-present", ctx("frame"));
                ok = false;
            }
        }
    }
    ok
}

fn rand_flags(r: &mut Rng) -> u64 {
    // flags drawn from bits 0-11 and 52-63 (bit 12, PAT_HUGE_PAGE, overlaps the address field and is excluded)
    match r.below(6) {
        0 => 0,
        1 => 1,
        2 => FLAG_BITS,
        3 => 1u64 << *r.pick(&[0u32, 1, 2, 3, 4, 5, 6, 7, 8, 9, 10, 11, 52, 53, 54, 55, 56, 57, 58, 59, 60, 61, 62, 63]),
        _ => r.next() & FLAG_BITS,
    }
}

fn rand_addr(r: &mut Rng) -> u64 {
    match r.below(5) {
        0 => 0,
        1 => ADDR_BITS,
        2 => (1u64 << r.range(12, 51)) & ADDR_BITS,
        _ => gen::phys(r).0 & ADDR_BITS,
    }
}

fn entry_program(rep: &mut Report, r: &mut Rng) {
    let mut e = PageTableEntry::new();
    let mut shadow: u64 = 0;
    let mut log: Vec<J> = Vec::new();
    if raw(&e) != 0 || !e.is_unused() {
        rep.violation("PageTableEntry::new|not-zero", J::Null);
    }
    let len = 1 + r.below(12) as usize;
    for step in 0..len {
        rep.eval();
        let which = r.below(5);
        match which {
            0 => {
                let a = rand_addr(r);
                let f = rand_flags(r);
                log.push(J::s(format!("set_addr({:#x},{:#x})", a, f)));
                e.set_addr(PhysAddr::new(a), PageTableFlags::from_bits_truncate(f));
                shadow = a | f;
                rep.class("op|set_addr");
            }
            1 => {
                let a = rand_addr(r);
                let f = rand_flags(r);
                log.push(J::s(format!("set_frame({:#x},{:#x})", a, f)));
                e.set_frame(PhysFrame::containing_address(PhysAddr::new(a)), PageTableFlags::from_bits_truncate(f));
                shadow = a | f;
                rep.class("op|set_frame");
            }
            2 | 3 => {
                let f = rand_flags(r);
                log.push(J::s(format!("set_flags({:#x})", f)));
                e.set_flags(PageTableFlags::from_bits_truncate(f));
                shadow = (shadow & ADDR_BITS) | f;
                rep.class(if shadow & ADDR_BITS == 0 { "op|set_flags|addr0" } else { "op|set_flags|addr!=0" });
            }
            _ => {
                log.push(J::s("set_unused()"));
                e.set_unused();
                shadow = 0;
                rep.class("op|set_unused");
            }
        }
        if !check_getters(rep, &e, shadow, &log, step) {
            return;
        }
        rep.class(&format!("state|present={}|unused={}|hi_flags={}|addr_top={}", shadow & 1, shadow == 0, shadow >> 52 != 0, (shadow >> 51) & 1));
    }
    // unaligned address must be rejected by set_addr without changing the entry
    if r.chance(1, 8) {
        let before = raw(&e);
        let bad = rand_addr(r) | (1 + r.below(0xfff));
        let res = catch(|| {
            let mut e2 = e.clone();
            e2.set_addr(PhysAddr::new(bad), PageTableFlags::empty());
            raw(&e2)
        });
        if let Ok(v) = res {
            rep.violation("PageTableEntry::set_addr|accepted-unaligned", J::obj(vec![("addr", J::hex(bad)), ("raw_after", J::hex(v)), ("raw_before", J::hex(before))]));
        }
        rep.class("op|set_addr-unaligned-panics");
    }
    if rep.want_sample() {
        rep.sample(J::obj(vec![("kind", J::s("entry-program")), ("ops", J::A(log)), ("final_raw", J::hex(shadow))]));
    }
}

#[repr(C, align(4096))]
struct RawTable([u8; 4096]);

fn table_layout(rep: &mut Report, r: &mut Rng) {
    if core::mem::size_of::<PageTable>() != 4096 || core::mem::align_of::<PageTable>() != 4096 || core::mem::size_of::<PageTableEntry>() != 8 {
        rep.violation("PageTable|size-or-alignment", J::Null);
        return;
    }
    let mut t = Box::new(PageTable::new());
    let base = &*t as *const PageTable as usize;
    let bytes = |t: &PageTable| -> [u8; 4096] { unsafe { core::ptr::read(t as *const PageTable as *const [u8; 4096]) } };
    if bytes(&t).iter().any(|&b| b != 0) || !t.is_empty() {
        rep.violation("PageTable::new|not-all-zero", J::Null);
    }
    // all 512 slots x 4 access paths address byte 8*i
    for i in 0..512usize {
        rep.evals(4);
        let p1 = &t[i] as *const PageTableEntry as usize;
        let p2 = &t[PageTableIndex::new(i as u16)] as *const PageTableEntry as usize;
        let p3 = t.iter().nth(i).unwrap() as *const PageTableEntry as usize;
        let p4 = t.iter_mut().nth(i).unwrap() as *mut PageTableEntry as usize;
        let p5 = &mut t[i] as *mut PageTableEntry as usize;
        let p6 = &mut t[PageTableIndex::new(i as u16)] as *mut PageTableEntry as usize;
        let exp = base + 8 * i;
        if p1 != exp || p2 != exp || p3 != exp || p4 != exp || p5 != exp || p6 != exp {
            rep.violation(
                "PageTable|access-path-addresses-wrong-slot",
                J::obj(vec![("slot", J::U(i as u64)), ("expected_offset", J::U(8 * i as u64)), ("index_usize", J::U((p1 - base) as u64)), ("index_pti", J::U((p2 - base) as u64)), ("iter", J::U((p3 - base) as u64)), ("iter_mut", J::U((p4 - base) as u64))]),
            );
        }
    }
    if t.iter().take(600).count() != 512 || t.iter_mut().take(600).count() != 512 {
        rep.violation("PageTable::iter|not-512-items", J::Null);
    }
    // there are exactly 512 slots: an index beyond them is refused in every build profile (it would name memory outside
    // the 4 KiB block)
    for bad in [512usize, 513, 1023, 4096, 65535, 65536, 65536 + 7, 65536 + 511, (1u64 << 32) as usize, ((1u64 << 32) + 7) as usize, ((1u64 << 48) + 511) as usize, usize::MAX - 511, usize::MAX] {
        rep.eval();
        let r1 = crate::util::catch(|| &t[bad] as *const PageTableEntry as usize);
        let r2 = crate::util::catch(|| &mut t[bad] as *mut PageTableEntry as usize);
        if r1.is_ok() || r2.is_ok() {
            rep.violation("PageTable|index-outside-0..512-not-refused", J::obj(vec![("profile", J::s(crate::util::profile_name())), ("index", J::hex(bad as u64)), ("table", J::hex(base as u64)), ("handed_out", J::s(format!("{:x?} / {:x?}", r1.ok(), r2.ok())))]));
        }
    }
    // iter() names the same 512 slots wherever the table lives - also in the last page of the address space, where a
    // recursive level-4 table with index 511 sits (the references are only compared, never dereferenced)
    #[cfg(not(miri))]
    for top in [0xffff_ffff_ffff_f000usize, 0xffff_ff7f_bfdf_e000, 0x0000_7fff_ffff_f000] {
        rep.eval();
        let tt: &PageTable = unsafe { &*(top as *const PageTable) };
        let got: Vec<usize> = tt.iter().take(600).map(|e| e as *const PageTableEntry as usize).collect();
        if got.len() != 512 || got.iter().enumerate().any(|(i, &a)| a != top + 8 * i) {
            rep.violation("PageTable::iter|does-not-name-the-512-slots-of-a-table-at-the-top-of-the-address-space", J::obj(vec![("table", J::hex(top as u64)), ("items", J::U(got.len() as u64))]));
        }
    }
    rep.exhaustive.push("all 512 slots x {Index<usize>, Index<PageTableIndex>, iter, iter_mut, IndexMut x2}: pointer identity with base+8*i".into());
    rep.class("table|slots-exhaustive");
    // write through every path, read raw little-endian bytes
    for i in 0..512usize {
        rep.eval();
        let a = rand_addr(r);
        let f = rand_flags(r);
        let v = a | f;
        match i % 3 {
            0 => t[i].set_addr(PhysAddr::new(a), PageTableFlags::from_bits_truncate(f)),
            1 => t[PageTableIndex::new(i as u16)].set_addr(PhysAddr::new(a), PageTableFlags::from_bits_truncate(f)),
            _ => t.iter_mut().nth(i).unwrap().set_addr(PhysAddr::new(a), PageTableFlags::from_bits_truncate(f)),
        }
        let b = bytes(&t);
        let mut le = [0u8; 8];
        le.copy_from_slice(&b[8 * i..8 * i + 8]);
        if u64::from_le_bytes(le) != v {
            rep.violation("PageTable|slot-bytes-not-little-endian-at-8i", J::obj(vec![("slot", J::U(i as u64)), ("stored", J::hex(v)), ("bytes", J::hex(u64::from_le_bytes(le)))]));
        }
        if t.is_empty() != b.iter().all(|&x| x == 0) {
            rep.violation("PageTable::is_empty|disagrees-with-bytes", J::U(i as u64));
        }
    }
    rep.class("table|write-paths-le-bytes");
    // is_empty with exactly one non-zero entry anywhere, incl. entries without PRESENT
    for i in 0..512usize {
        rep.eval();
        let mut t2 = PageTable::new();
        let v = if i % 2 == 0 { 1u64 << 63 } else { 0x1000 };
        t2[i].set_addr(PhysAddr::new(v & ADDR_BITS), PageTableFlags::from_bits_truncate(v & FLAG_BITS));
        if t2.is_empty() {
            rep.violation("PageTable::is_empty|true-with-nonzero-entry", J::U(i as u64));
        }
        t2[i].set_unused();
        if !t2.is_empty() {
            rep.violation("PageTable::is_empty|false-after-set_unused", J::U(i as u64));
        }
    }
    rep.class("table|is_empty-single-entry-exhaustive");
    // is_empty <=> all bytes zero, also when entries repeat or cancel each other
    for _ in 0..64 {
        rep.eval();
        let mut t2 = PageTable::new();
        let v = (rand_addr(r) | rand_flags(r)).max(1 << 9);
        let (i, j, k) = (r.below(512) as usize, r.below(512) as usize, r.below(512) as usize);
        let w = rand_addr(r) | rand_flags(r);
        let put = |t: &mut PageTable, idx: usize, val: u64| t[idx].set_addr(PhysAddr::new(val & ADDR_BITS), PageTableFlags::from_bits_truncate(val & FLAG_BITS));
        put(&mut t2, i, v);
        put(&mut t2, j, v);
        if r.chance(1, 2) {
            put(&mut t2, k, w);
            put(&mut t2, (k + 1) % 512, v ^ w);
        }
        let b = bytes(&t2);
        if t2.is_empty() != b.iter().all(|&x| x == 0) {
            rep.violation("PageTable::is_empty|disagrees-with-bytes(repeated-or-cancelling-entries)", J::obj(vec![("slots", J::A(vec![J::U(i as u64), J::U(j as u64)])), ("value", J::hex(v))]));
            break;
        }
    }
    rep.class("table|is_empty-repeated-entries");
    // every way of driving the iterators addresses the same slots: random mixes of next / nth / skip / step_by
    for _ in 0..64 {
        rep.eval();
        let mut pos = 0usize;
        let mut ok = true;
        let mut trace: Vec<J> = Vec::new();
        let mut it = t.iter();
        while pos < 512 && ok {
            let k = r.below(40) as usize;
            let (got, exp_pos) = if r.chance(1, 2) { (it.next().map(|e| e as *const PageTableEntry as usize), pos) } else { (it.nth(k).map(|e| e as *const PageTableEntry as usize), pos + k) };
            trace.push(J::U(exp_pos as u64));
            let exp = if exp_pos < 512 { Some(base + 8 * exp_pos) } else { None };
            if got != exp {
                ok = false;
            }
            pos = exp_pos + 1;
        }
        drop(it);
        // bounded: a broken iterator may never end
        let stepped: Vec<usize> = t.iter().step_by(1 + r.below(7) as usize).take(600).map(|e| (e as *const PageTableEntry as usize).wrapping_sub(base) / 8).collect();
        let step = if stepped.len() > 1 { stepped[1] - stepped[0] } else { 1 };
        let ok2 = stepped.iter().enumerate().all(|(n, &s)| s == n * step) && stepped.len() == (511 / step) + 1;
        // iter_mut: the same walk, writing through the references it hands out
        let mut posm = 0usize;
        let mut okm = true;
        {
            let mut itm = t.iter_mut();
            while posm < 512 && okm {
                let k = r.below(60) as usize;
                let (got, exp_pos) = if r.chance(1, 2) { (itm.next().map(|e| e as *mut PageTableEntry as usize), posm) } else { (itm.nth(k).map(|e| e as *mut PageTableEntry as usize), posm + k) };
                let exp = if exp_pos < 512 { Some(base + 8 * exp_pos) } else { None };
                if got != exp {
                    okm = false;
                }
                posm = exp_pos + 1;
            }
        }
        if !ok || !ok2 || !okm {
            rep.violation("PageTable::iter|mixed-next-nth-step_by-addresses-wrong-slot", J::obj(vec![("positions", J::A(trace.into_iter().take(20).collect())), ("iter_ok", J::Bool(ok)), ("step_by_ok", J::Bool(ok2)), ("iter_mut_ok", J::Bool(okm))]));
            break;
        }
    }
    rep.class("table|iterator-laws");
    // zero() clears everything
    t.zero();
    if bytes(&t).iter().any(|&b| b != 0) || !t.is_empty() {
        rep.violation("PageTable::zero|bytes-left", J::Null);
    }
    // zero() is seen by the code around it: entries written just before read back as unused just after, through the API
    // (an optimiser that does not know zero() writes the table would forward the earlier stores)
    for k in 0..16usize {
        rep.eval();
        let mut t5 = PageTable::new();
        let slot = (k * 37 + 5) % 512;
        t5[slot].set_addr(PhysAddr::new(0x1000 * (k as u64 + 1)), PageTableFlags::PRESENT | PageTableFlags::WRITABLE);
        t5[511 - slot].set_addr(PhysAddr::new(ADDR_BITS), PageTableFlags::from_bits_truncate(FLAG_BITS));
        t5.zero();
        let seen_a = t5[slot].is_unused();
        let seen_b = t5[511 - slot].addr().as_u64() == 0 && t5[511 - slot].flags().is_empty();
        let seen_c = t5.is_empty();
        if !(seen_a && seen_b && seen_c) {
            rep.violation("PageTable::zero|entries-written-before-still-read-back-after", J::obj(vec![("profile", J::s(crate::util::profile_name())), ("slot", J::U(slot as u64)), ("is_unused", J::Bool(seen_a)), ("other_slot_cleared", J::Bool(seen_b)), ("is_empty", J::Bool(seen_c))]));
            break;
        }
    }
    rep.class("table|zero-then-read-through-the-api");
    // zero() on garbage memory
    let mut rawt = Box::new(RawTable([0u8; 4096]));
    for b in rawt.0.iter_mut() {
        *b = (r.next() as u8) | 1;
    }
    let pt: &mut PageTable = unsafe { &mut *(rawt.0.as_mut_ptr() as *mut PageTable) };
    if pt.is_empty() {
        rep.violation("PageTable::is_empty|true-on-garbage", J::Null);
    }
    pt.zero();
    if rawt.0.iter().any(|&b| b != 0) {
        rep.violation("PageTable::zero|garbage-bytes-left", J::Null);
    }
    rep.class("table|zero-on-garbage");
    // clone copies bytes
    let mut t3 = PageTable::new();
    t3[511].set_addr(PhysAddr::new(ADDR_BITS), PageTableFlags::from_bits_truncate(FLAG_BITS));
    t3[0].set_addr(PhysAddr::new(0x1000), PageTableFlags::PRESENT);
    let c = t3.clone();
    if bytes(&c) != bytes(&t3) {
        rep.violation("PageTable::clone|bytes-differ", J::Null);
    }
    let d = PageTable::default();
    if !d.is_empty() || bytes(&d).iter().any(|&b| b != 0) {
        rep.violation("PageTable::default|not-empty", J::Null);
    }
    // a copy of a table is that table's 512 entries, whichever Clone method makes it and whatever the target held before
    for k in 0..24 {
        rep.eval();
        let fill = |r: &mut Rng, t: &mut PageTable, dense: bool| {
            for i in 0..512usize {
                if dense || r.chance(1, 6) {
                    let (a, f) = (rand_addr(r), rand_flags(r));
                    t[i].set_addr(PhysAddr::new(a), PageTableFlags::from_bits_truncate(f));
                }
            }
        };
        let mut src = Box::new(PageTable::new());
        let mut dst = Box::new(PageTable::new());
        match k % 4 {
            0 => fill(r, &mut dst, true),                                   // empty source into a full target
            1 => { fill(r, &mut src, false); fill(r, &mut dst, true) }      // sparse into full
            2 => { fill(r, &mut src, true); fill(r, &mut dst, false) }      // full into sparse
            _ => fill(r, &mut src, false),                                  // sparse into empty
        }
        let sb = bytes(&src);
        dst.clone_from(&src);
        if bytes(&dst) != sb || bytes(&src) != sb || dst.is_empty() != src.is_empty() {
            let slot = (0..512).find(|&i| bytes(&dst)[8 * i..8 * i + 8] != sb[8 * i..8 * i + 8]).unwrap_or(0);
            rep.violation("PageTable::clone_from|target-is-not-a-copy-of-the-source", J::obj(vec![("case", J::U(k % 4)), ("first_differing_slot", J::U(slot as u64))]));
            break;
        }
        let c = Box::new((*src).clone());
        if bytes(&c) != sb {
            rep.violation("PageTable::clone|bytes-differ", J::Null);
            break;
        }
    }
    rep.class("table|clone-and-clone_from");
}

/// the pointer-identity part of `table_layout` on a stride of slots (interpreter-friendly): iter_mut uses raw ptr.add
fn table_layout_light(rep: &mut Report, r: &mut Rng) {
    if core::mem::size_of::<PageTable>() != 4096 || core::mem::align_of::<PageTable>() != 4096 || core::mem::size_of::<PageTableEntry>() != 8 {
        rep.violation("PageTable|size-or-alignment", J::Null);
        return;
    }
    let mut t = Box::new(PageTable::new());
    let base = &*t as *const PageTable as usize;
    if t.iter().count() != 512 || t.iter_mut().count() != 512 {
        rep.violation("PageTable::iter|not-512-items", J::Null);
    }
    for bad in [512usize, 513, 1023, 1024, 65536 + 7, usize::MAX] {
        rep.eval();
        if crate::util::catch(|| &t[bad] as *const PageTableEntry as usize).is_ok() {
            rep.violation("PageTable|index-outside-0..512-not-refused", J::obj(vec![("profile", J::s(crate::util::profile_name())), ("index", J::hex(bad as u64))]));
        }
    }
    for i in (0..512usize).step_by(37).chain([511usize]) {
        rep.evals(4);
        let p1 = &t[i] as *const PageTableEntry as usize;
        let p2 = &t[PageTableIndex::new(i as u16)] as *const PageTableEntry as usize;
        let p3 = t.iter().nth(i).unwrap() as *const PageTableEntry as usize;
        let p4 = t.iter_mut().nth(i).unwrap() as *mut PageTableEntry as usize;
        if p1 != base + 8 * i || p2 != p1 || p3 != p1 || p4 != p1 {
            rep.violation("PageTable|access-path-addresses-wrong-slot", J::U(i as u64));
        }
        let a = rand_addr(r);
        t.iter_mut().nth(i).unwrap().set_addr(PhysAddr::new(a), PageTableFlags::PRESENT);
        if raw(&t[i]) != a | 1 {
            rep.violation("PageTable|iter_mut-write-lost", J::U(i as u64));
        }
    }
    t.zero();
    if !t.is_empty() {
        rep.violation("PageTable::zero|bytes-left", J::Null);
    }
    rep.class("table|light-miri");
}

pub fn run(a: &Args, rep: &mut Report) {
    let mut r = Rng::derive(a.seed, "c08", a.shard);
    let reps = if cfg!(miri) { 0 } else if a.thorough() { 40 } else { 3 };
    if cfg!(miri) {
        table_layout_light(rep, &mut r);
    }
    for _ in 0..reps {
        table_layout(rep, &mut r);
    }
    let n = a.budget(2_000_000, 60_000_000);
    for _ in 0..n {
        entry_program(rep, &mut r);
    }
    rep.count("entry_programs", n);
}
