//! C13 — set_general_handler installs, per vector, a stub that reports that vector.
//! Oracle: raw IDT bytes before/after installation for every contiguous range; simulated interrupt delivery (E6)
//! into the installed stubs with hardware-format frames, observing the general handler's arguments and the
//! state after the stub's own iretq; InterruptStackFrameValue::iretq on the real CPU.

use crate::irqsim::{self, Params, Stack};
use crate::util::{profile_name, Args, Report, Rng, J};
use x86_64::registers::rflags::RFlags;
use x86_64::set_general_handler;
use x86_64::structures::gdt::SegmentSelector;
use x86_64::structures::idt::{InterruptDescriptorTable, InterruptStackFrame, InterruptStackFrameValue};
use x86_64::VirtAddr;

#[derive(Clone, Copy, Default, Debug)]
struct Obs {
    calls: u64,
    index: u8,
    has_err: bool,
    err: u64,
    rip: u64,
    cs: u16,
    flags: u64,
    rsp: u64,
    ss: u16,
    /// which of the harness's two general handlers ran (1 = `general`, 2 = `general_other`)
    who: u8,
}

static mut OBS: Obs = Obs { calls: 0, index: 0, has_err: false, err: 0, rip: 0, cs: 0, flags: 0, rsp: 0, ss: 0, who: 0 };

#[inline(never)]
fn general(frame: InterruptStackFrame, index: u8, error_code: Option<u64>) {
    unsafe {
        let o = &mut *core::ptr::addr_of_mut!(OBS);
        o.calls += 1;
        o.who = 1;
        o.index = index;
        o.has_err = error_code.is_some();
        o.err = error_code.unwrap_or(0);
        // field-by-field volatile reads: with SSE enabled (user-space target) LLVM otherwise merges the loads into
        // 16-byte aligned moves although a hardware frame is only 8-byte aligned
        let f: &InterruptStackFrameValue = &frame;
        o.rip = core::ptr::read_volatile(&f.instruction_pointer).as_u64();
        o.cs = core::ptr::read_volatile(&f.code_segment).0;
        o.flags = core::ptr::read_volatile(&f.cpu_flags).bits();
        o.rsp = core::ptr::read_volatile(&f.stack_pointer).as_u64();
        o.ss = core::ptr::read_volatile(&f.stack_segment).0;
        if index == 8 || index == 18 {
            // diverging vectors: the stub panics if we return; leave through the saved context instead
            irqsim::escape();
        }
    }
}

/// a second general handler, installed through its own macro invocation (a kernel has one for exceptions and one for
/// device interrupts, or one per IDT): the stubs of each installation call the handler of that installation
#[inline(never)]
fn general_other(frame: InterruptStackFrame, index: u8, error_code: Option<u64>) {
    let _ = (&frame, error_code);
    unsafe {
        let o = &mut *core::ptr::addr_of_mut!(OBS);
        o.calls += 1;
        o.who = 2;
        o.index = index;
        if index == 8 || index == 18 {
            irqsim::escape();
        }
    }
}
fn install_all_other(idt: &mut InterruptDescriptorTable) {
    set_general_handler!(idt, general_other);
}

fn install_range(idt: &mut InterruptDescriptorTable, lo: u8, hi: u8) {
    set_general_handler!(idt, general, lo..=hi);
}
fn install_range_excl(idt: &mut InterruptDescriptorTable, lo: u8, hi: u8) {
    set_general_handler!(idt, general, lo..hi);
}
fn install_from(idt: &mut InterruptDescriptorTable, lo: u8) {
    set_general_handler!(idt, general, lo..);
}
fn install_all(idt: &mut InterruptDescriptorTable) {
    set_general_handler!(idt, general);
}
/// the single-index form for a list of literal vectors (each literal is its own macro expansion with its own stub)
macro_rules! single_index_installers {
    ($($v:literal)*) => {
        const SINGLE: &[(u8, fn(&mut InterruptDescriptorTable))] = &[
            $( ($v, { fn f(idt: &mut InterruptDescriptorTable) { set_general_handler!(idt, general, $v); } f }), )*
        ];
    };
}
single_index_installers!(0 1 2 3 7 8 9 10 13 15 16 17 18 21 22 27 28 29 30 31 32 33 128 254 255);

/// the table argument of the macro is an expression like any other: it is evaluated once
static TABLE_EXPR_EVALUATIONS: core::sync::atomic::AtomicU32 = core::sync::atomic::AtomicU32::new(0);
fn counted<'a>(t: &'a mut InterruptDescriptorTable) -> &'a mut InterruptDescriptorTable {
    TABLE_EXPR_EVALUATIONS.fetch_add(1, core::sync::atomic::Ordering::Relaxed);
    t
}
fn install_through_side_effecting_expression(idt: &mut InterruptDescriptorTable, lo: u8, hi: u8) {
    set_general_handler!(counted(idt), general, lo..=hi);
}

/// two general-handler installations around a reload of CS in one function: each carries the code segment that is
/// current when it runs (single-step mode with an emulated CS, see C12)
#[inline(never)]
fn two_installations_around_a_cs_reload(idt1: &mut InterruptDescriptorTable, idt2: &mut InterruptDescriptorTable, sel: u16) {
    use x86_64::instructions::segmentation::{Segment, CS};
    crate::trapemu::step_begin();
    set_general_handler!(idt1, general, 32..=35);
    unsafe { CS::set_reg(SegmentSelector(sel)) };
    set_general_handler!(idt2, general, 32..=35);
    crate::trapemu::step_end();
}

fn cs_reload_between_installations(rep: &mut Report, r: &mut Rng, own: u16) {
    use crate::trapemu;
    for _ in 0..2 {
        rep.eval();
        let sel = match r.below(3) {
            0 => 0x08,
            1 => 0x10 | (r.below(4) as u16),
            _ => (r.next() as u16 & 0xfff8).max(8),
        };
        let mut idt1 = Box::new(InterruptDescriptorTable::new());
        let mut idt2 = Box::new(InterruptDescriptorTable::new());
        let regs = trapemu::regs();
        regs.sreg[1] = own;
        regs.emulate_cs_reads = true;
        let (_, evs) = trapemu::trapped(|| two_installations_around_a_cs_reload(&mut idt1, &mut idt2, sel));
        let regs = trapemu::regs();
        regs.emulate_cs_reads = false;
        regs.sreg[1] = own;
        let (b1, b2) = (bytes_of(&idt1), bytes_of(&idt2));
        let bad = (32..=35usize).find(|&v| {
            let (o1, s1, p1, _) = gate(&b1, v);
            let (o2, s2, p2, _) = gate(&b2, v);
            !(p1 && p2 && o1 != 0 && o2 != 0 && s1 == own && s2 == sel)
        });
        if let Some(v) = bad {
            rep.violation("set_general_handler|around-a-CS-reload|gate-does-not-carry-the-code-segment-current-at-that-moment", J::obj(vec![("profile", J::s(profile_name())), ("vector", J::U(v as u64)), ("cs_before", J::hex(own as u64)), ("cs_after", J::hex(sel as u64)), ("first_table_selector", J::hex(gate(&b1, v).1 as u64)), ("second_table_selector", J::hex(gate(&b2, v).1 as u64)), ("cs_reads_executed", J::U(evs.iter().filter(|e| e.kind == trapemu::K::MovFromCs).count() as u64))]));
        }
        rep.class("install|code-segment-read-at-each-installation");
    }
}

fn install_14(idt: &mut InterruptDescriptorTable) {
    set_general_handler!(idt, general, 14);
}
fn install_200(idt: &mut InterruptDescriptorTable) {
    set_general_handler!(idt, general, 200);
}

fn reserved(v: usize) -> bool {
    matches!(v, 15 | 22..=27 | 31)
}
fn has_error_code(v: usize) -> bool {
    matches!(v, 8 | 10 | 11 | 12 | 13 | 14 | 17 | 21 | 29 | 30)
}
fn diverges(v: usize) -> bool {
    matches!(v, 8 | 18)
}

fn bytes_of(idt: &InterruptDescriptorTable) -> [u8; 4096] {
    unsafe { core::ptr::read(idt as *const InterruptDescriptorTable as *const [u8; 4096]) }
}
fn gate(b: &[u8; 4096], v: usize) -> (u64, u16, bool, u8) {
    let e = &b[16 * v..16 * v + 16];
    let off = u16::from_le_bytes([e[0], e[1]]) as u64 | ((u16::from_le_bytes([e[6], e[7]]) as u64) << 16) | ((u32::from_le_bytes([e[8], e[9], e[10], e[11]]) as u64) << 32);
    (off, u16::from_le_bytes([e[2], e[3]]), e[5] >> 7 == 1, e[5] & 0xf)
}

/// junk-filled table: random handlers on plain vectors, marker bytes in the reserved entries
fn junk_idt(r: &mut Rng) -> Box<InterruptDescriptorTable> {
    let mut idt = Box::new(InterruptDescriptorTable::new());
    for _ in 0..40 {
        let v = 32 + r.below(224) as u8;
        let o = unsafe { idt[v].set_handler_addr(VirtAddr::new(0x1000 + (r.next() & 0x7fff_ffff_f000))) };
        if r.chance(1, 3) {
            o.set_present(false);
        }
    }
    let p = &mut *idt as *mut InterruptDescriptorTable as *mut u8;
    for v in 0..32usize {
        if reserved(v) || r.chance(1, 3) {
            for k in 0..16 {
                // keep byte 5 bit 7 clear half of the time so "present" can be told apart
                let mut b = r.next() as u8;
                if k == 5 && r.chance(1, 2) {
                    b &= 0x7f;
                }
                unsafe { *p.add(16 * v + k) = b };
            }
        }
    }
    idt
}

/// a table on which the same expansion has already run over all vectors and whose entries were then customised the way a
/// kernel does between two runs of its IDT set-up routine: masked (present bit cleared, stub address kept), other IST
/// index / DPL / gate type, or replaced by another handler
fn reinstall_base(r: &mut Rng, f: &dyn Fn(&mut InterruptDescriptorTable)) -> Box<InterruptDescriptorTable> {
    let mut idt = Box::new(InterruptDescriptorTable::new());
    f(&mut idt);
    let p = &mut *idt as *mut InterruptDescriptorTable as *mut u8;
    for v in 0..256usize {
        if reserved(v) {
            continue;
        }
        let e = unsafe { core::slice::from_raw_parts_mut(p.add(16 * v), 16) };
        match r.below(6) {
            0 => e[5] &= 0x7f,                                  // masked, address kept
            1 => e[4] = (e[4] & !7) | (1 + r.below(7) as u8),   // IST index
            2 => e[5] |= 3 << 5,                                // DPL 3
            3 => e[5] |= 1,                                     // trap gate
            4 => {
                e[5] &= 0x7f;
                e[4] = (e[4] & !7) | (1 + r.below(7) as u8);
                e[5] |= 1 | (((r.below(4)) as u8) << 5);
            }
            _ => {}
        }
    }
    idt
}

fn check_install(rep: &mut Report, what: &str, before: &[u8; 4096], after: &[u8; 4096], in_range: &dyn Fn(usize) -> bool, stubs: &[u64; 256], cs: u16) -> bool {
    for v in 0..256usize {
        let unchanged = before[16 * v..16 * v + 16] == after[16 * v..16 * v + 16];
        if in_range(v) && !reserved(v) {
            let (off, sel, present, typ) = gate(after, v);
            if !present || typ != 0xE || sel != cs || off != stubs[v] || off == 0 {
                rep.violation(&format!("{}|vector-in-range-not-present-with-its-stub", what), J::obj(vec![("vector", J::U(v as u64)), ("offset", J::hex(off)), ("expected_stub", J::hex(stubs[v])), ("present", J::Bool(present))]));
                return false;
            }
        } else if !unchanged {
            let k = if reserved(v) { "reserved-vector-modified" } else { "entry-outside-range-modified" };
            rep.violation(&format!("{}|{}", what, k), J::obj(vec![("vector", J::U(v as u64))]));
            return false;
        }
    }
    true
}

fn ranges(rep: &mut Report, r: &mut Rng, a: &Args, stubs_all: &[u64; 256], cs: u16, scratch: &Stack, resume: &Stack, ss: u16) {
    // every macro expansion has its own 256 stubs: learn them from a full-range installation of the same expansion
    let learn = |f: &dyn Fn(&mut InterruptDescriptorTable)| -> [u64; 256] {
        let mut idt = Box::new(InterruptDescriptorTable::new());
        f(&mut idt);
        let b = bytes_of(&idt);
        let mut st = [0u64; 256];
        for v in 0..256 {
            let (off, _, present, _) = gate(&b, v);
            if present {
                st[v] = off;
            }
        }
        st
    };
    let stubs = &learn(&|i| install_range(i, 0, 255));
    let stubs_excl = &learn(&|i| install_range_excl(i, 0, 255));
    let stubs_from = &learn(&|i| install_from(i, 0));
    let base = junk_idt(r);
    let before = bytes_of(&base);
    let re = reinstall_base(r, &|i| install_range(i, 0, 255));
    let re_before = bytes_of(&re);
    let re_excl = reinstall_base(r, &|i| install_range_excl(i, 0, 255));
    let re_excl_before = bytes_of(&re_excl);
    let re_from = reinstall_base(r, &|i| install_from(i, 0));
    let re_from_before = bytes_of(&re_from);
    let mut n = 0u64;
    for lo in 0..=255u8 {
        if (lo as u64) % a.nshards != a.shard {
            continue;
        }
        for hi in 0..=255u8 {
            // quick tier: all pairs with lo or hi on an interesting edge, plus a stride of the rest
            if !a.thorough() && !(matches!(lo, 0 | 7 | 8 | 9 | 14 | 15 | 16 | 21 | 22 | 27 | 28 | 31 | 32 | 255) || matches!(hi, 0 | 8 | 15 | 18 | 22 | 27 | 31 | 32 | 254 | 255) || (lo as u32 * 7 + hi as u32) % 11 == 0) {
                continue;
            }
            rep.eval();
            n += 1;
            let mut idt = base.clone();
            install_range(&mut idt, lo, hi);
            let after = bytes_of(&idt);
            let (l, h) = (lo as usize, hi as usize);
            if !check_install(rep, "set_general_handler(lo..=hi)", &before, &after, &|v| v >= l && v <= h, stubs, cs) {
                return;
            }
            if (lo as u32 + hi as u32) % 5 == 0 {
                let mut idt = base.clone();
                install_range_excl(&mut idt, lo, hi);
                let after = bytes_of(&idt);
                if !check_install(rep, "set_general_handler(lo..hi)", &before, &after, &|v| v >= l && v < h, stubs_excl, cs) {
                    return;
                }
                let mut idt = re_excl.clone();
                install_range_excl(&mut idt, lo, hi);
                let after = bytes_of(&idt);
                if !check_install(rep, "set_general_handler(lo..hi)|second-run-over-customised-entries", &re_excl_before, &after, &|v| v >= l && v < h, stubs_excl, cs) {
                    return;
                }
            }
            if (lo as u32 + hi as u32) % 3 == 0 {
                rep.eval();
                let mut idt = re.clone();
                install_range(&mut idt, lo, hi);
                let after = bytes_of(&idt);
                if !check_install(rep, "set_general_handler(lo..=hi)|second-run-over-customised-entries", &re_before, &after, &|v| v >= l && v <= h, stubs, cs) {
                    return;
                }
            }
        }
        let mut idt = base.clone();
        install_from(&mut idt, lo);
        let after = bytes_of(&idt);
        if !check_install(rep, "set_general_handler(lo..)", &before, &after, &|v| v >= lo as usize, stubs_from, cs) {
            return;
        }
        let mut idt = re_from.clone();
        install_from(&mut idt, lo);
        let after = bytes_of(&idt);
        if !check_install(rep, "set_general_handler(lo..)|second-run-over-customised-entries", &re_from_before, &after, &|v| v >= lo as usize, stubs_from, cs) {
            return;
        }
    }
    if a.thorough() {
        rep.exhaustive.push("set_general_handler: all 65536 (lo,hi) pairs as lo..=hi (sharded by lo), all 256 lo.. forms".into());
    }
    rep.count("range_installations_checked", n);
    // every literal single-index form installs exactly that vector (nothing for a reserved one)
    for &(v, f) in SINGLE.iter() {
        rep.eval();
        let mut idt = base.clone();
        f(&mut idt);
        let after = bytes_of(&idt);
        let vv = v as usize;
        for w in 0..256usize {
            let changed = before[16 * w..16 * w + 16] != after[16 * w..16 * w + 16];
            let (off, sel, present, typ) = gate(&after, w);
            let installed = present && typ == 0xE && sel == cs && off != 0;
            let bad = if w == vv && !reserved(vv) { !installed } else { changed };
            if bad {
                rep.violation("set_general_handler(literal-index)|does-not-install-exactly-that-vector", J::obj(vec![("literal", J::U(v as u64)), ("vector_looked_at", J::U(w as u64)), ("changed", J::Bool(changed)), ("installed", J::Bool(installed))]));
                break;
            }
        }
        if !reserved(vv) {
            let (off, _, _, _) = gate(&after, vv);
            let mut st = [0u64; 256];
            st[vv] = off;
            enter(rep, r, &st, vv, scratch, resume, cs, ss);
        }
        rep.class(&format!("install|literal-index|{}", if reserved(vv) { "reserved" } else { "plain" }));
    }
    // the table expression is evaluated once per invocation
    {
        rep.eval();
        let mut idt = base.clone();
        TABLE_EXPR_EVALUATIONS.store(0, core::sync::atomic::Ordering::Relaxed);
        install_through_side_effecting_expression(&mut idt, 3, 40);
        let n = TABLE_EXPR_EVALUATIONS.load(core::sync::atomic::Ordering::Relaxed);
        if n != 1 {
            rep.violation("set_general_handler|table-expression-evaluated-more-than-once", J::U(n as u64));
        }
        rep.class("install|table-expression-with-side-effect");
    }
    let s14 = learn(&|i| install_14(i));
    let mut idt = base.clone();
    install_14(&mut idt);
    check_install(rep, "set_general_handler(14)", &before, &bytes_of(&idt), &|v| v == 14, &s14, cs);
    let s200 = learn(&|i| install_200(i));
    let mut idt = base.clone();
    install_200(&mut idt);
    check_install(rep, "set_general_handler(200)", &before, &bytes_of(&idt), &|v| v == 200, &s200, cs);
    let mut idt = base.clone();
    install_all(&mut idt);
    check_install(rep, "set_general_handler(all)", &before, &bytes_of(&idt), &|_| true, stubs_all, cs);
    // the stubs of every expansion report their vector when entered
    for v in 0..256usize {
        if reserved(v) {
            continue;
        }
        enter(rep, r, stubs, v, scratch, resume, cs, ss);
        if v < 255 {
            enter(rep, r, stubs_excl, v, scratch, resume, cs, ss);
        }
        enter(rep, r, stubs_from, v, scratch, resume, cs, ss);
    }
    enter(rep, r, &s14, 14, scratch, resume, cs, ss);
    enter(rep, r, &s200, 200, scratch, resume, cs, ss);
    for c in ["second-run|masked", "second-run|ist", "second-run|dpl", "second-run|trap-gate", "empty-range", "single", "crosses-reserved", "exceptions-only", "interrupts-only", "full"] {
        rep.class(&format!("install|{}", c));
    }
}

const ARITH: u64 = 0x1 | 0x4 | 0x10 | 0x40 | 0x80 | 0x800;
/// nested-task and alignment-check: both can be loaded by an iretq in user mode (the trampoline restores its caller's
/// RFLAGS right after recording what the iretq loaded)
const NT_AC: u64 = (1 << 14) | (1 << 18);

fn own_flags() -> u64 {
    let v: u64;
    unsafe { core::arch::asm!("pushfq", "pop {}", out(reg) v, options(nomem, preserves_flags)) };
    v
}

/// which of the two general handlers the stubs being entered belong to
static EXPECT_WHO: core::sync::atomic::AtomicU8 = core::sync::atomic::AtomicU8::new(1);

fn enter(rep: &mut Report, r: &mut Rng, stubs: &[u64; 256], v: usize, scratch: &Stack, resume: &Stack, cs: u16, ss: u16) {
    rep.eval();
    let base = own_flags() & !(ARITH | 0x400 | (1 << 21) | NT_AC) | 0x2;
    let flags = base | (r.next() & ARITH) | if r.chance(1, 6) { 0x400 } else { 0 } | if r.chance(1, 3) { 1 << 21 } else { 0 } | if r.chance(1, 3) { r.next() & NT_AC } else { 0 };
    let err = match r.below(4) {
        0 => 0,
        1 => u64::MAX,
        2 => r.next() & 0xffff,
        _ => r.next(),
    };
    let frame_rsp = resume.lo() + 4096 + r.below(0x6000) | if r.chance(1, 2) { 0 } else { r.below(16) };
    let mut p = Params { handler: stubs[v], has_err: has_error_code(v) as u64, err, flags, frame_rsp, scratch_top: scratch.top(), cs: cs as u64, ss: ss as u64, mode: 0, ..Default::default() };
    unsafe {
        *core::ptr::addr_of_mut!(OBS) = Obs::default();
        // entering the installed gate must end in the general handler and come back: a fault or an abort on the way (a
        // stub that panics, a frame mangled before the handler sees it) is the stub's doing - the trampoline and the
        // observer are the same code for all 250 vectors and return on the unchanged tree
        crate::util::fault_means_if("C13", format!("stub|{}|fault-or-abort-instead-of-calling-the-general-handler-and-resuming", if has_error_code(v) { "error-code" } else { "no-error-code" }), J::obj(vec![("vector", J::U(v as u64)), ("profile", J::s(profile_name()))]), |_| true);
        irqsim::deliver(&mut p as *mut Params);
        crate::util::fault_means_nothing();
    }
    let o = unsafe { *core::ptr::addr_of!(OBS) };
    let ctx = || J::obj(vec![("vector", J::U(v as u64)), ("profile", J::s(profile_name())), ("pushed", J::obj(vec![("rip", J::hex(p.resume_rip)), ("cs", J::hex(cs as u64)), ("rflags", J::hex(flags)), ("rsp", J::hex(frame_rsp)), ("ss", J::hex(ss as u64)), ("error_code", if has_error_code(v) { J::hex(err) } else { J::Null })])), ("observed", J::s(format!("{:x?}", o))), ("after", J::obj(vec![("path", J::U(p.out_path)), ("rsp", J::hex(p.out_rsp)), ("rflags", J::hex(p.out_flags))]))]);
    let kind = if diverges(v) { "diverging" } else if has_error_code(v) { "error-code" } else { "plain" };
    if o.calls != 1 {
        rep.violation(&format!("stub|{}|general-handler-not-called-exactly-once", kind), ctx());
        return;
    }
    if o.index as usize != v {
        rep.violation(&format!("stub|{}|reports-other-vector", kind), ctx());
    }
    let expect_who = EXPECT_WHO.load(core::sync::atomic::Ordering::Relaxed);
    if o.who != expect_who {
        rep.violation(&format!("stub|{}|calls-the-general-handler-of-another-installation", kind), ctx());
        return;
    }
    if expect_who == 1 && (o.has_err != has_error_code(v) || (o.has_err && o.err != err)) {
        rep.violation(&format!("stub|{}|error-code-wrong", kind), ctx());
    }
    if expect_who == 1 && (o.rip != p.resume_rip || o.cs != cs || o.flags != flags || o.rsp != frame_rsp || o.ss != ss) {
        rep.violation(&format!("stub|{}|frame-contents-differ-from-pushed", kind), ctx());
    }
    if diverges(v) {
        if p.out_path != 2 {
            rep.violation("stub|diverging|returned", ctx());
        }
    } else {
        const KEEP: u64 = ARITH | 0x400 | (1 << 21) | NT_AC;
        if p.out_path != 1 || p.out_rsp != frame_rsp {
            rep.violation(&format!("stub|{}|did-not-resume-at-interrupted-rip-rsp", kind), ctx());
        } else if p.out_flags & KEEP != flags & KEEP {
            rep.violation(&format!("stub|{}|flags-after-return-differ-from-frame", kind), ctx());
        }
    }
    rep.class(&format!("enter|v={}|{}|df={}|rsp-aligned={}", v, kind, (flags >> 10) & 1, frame_rsp % 16 == 0));
    if rep.want_sample() && r.chance(1, 40) {
        rep.sample(ctx());
    }
}

extern "C" fn do_iretq(p: *mut Params) -> ! {
    let p = unsafe { &*p };
    if p.err & 1 == 1 {
        // the wrapper type: built by its own constructor, iretq reached through Deref
        let f = InterruptStackFrame::new(VirtAddr::new(p.resume_rip), SegmentSelector(p.cs as u16), RFlags::from_bits_truncate(p.flags), unsafe { VirtAddr::new_unsafe(p.frame_rsp) }, SegmentSelector(p.ss as u16));
        unsafe { f.iretq() }
    }
    let f = InterruptStackFrameValue::new(VirtAddr::new(p.resume_rip), SegmentSelector(p.cs as u16), RFlags::from_bits_truncate(p.flags), unsafe { VirtAddr::new_unsafe(p.frame_rsp) }, SegmentSelector(p.ss as u16));
    unsafe { f.iretq() }
}

fn iretq_case(rep: &mut Report, r: &mut Rng, scratch: &Stack, resume: &Stack, cs: u16, ss: u16) {
    rep.eval();
    let base = own_flags() & !(ARITH | 0x400 | (1 << 21) | NT_AC) | 0x2;
    let flags = base | (r.next() & ARITH) | if r.chance(1, 6) { 0x400 } else { 0 } | if r.chance(1, 3) { 1 << 21 } else { 0 } | if r.chance(1, 3) { r.next() & NT_AC } else { 0 };
    // any 64-bit stack pointer: iretq loads it as it is (the landing pad switches stacks before using it)
    let frame_rsp = match r.below(8) {
        0 => 0x0000_8000_0000_0000 | (r.next() & 0xfff8),
        1 => 1u64 << 63,
        2 => 0xffff_7fff_ffff_fff8,
        3 => r.next() & !7,
        _ => resume.lo() + 4096 + r.below(0x6000),
    };
    let wrapper = r.chance(1, 2);
    // frame values are plain data: the wrapper's constructor and its volatile mutable view store / show exactly the fields
    {
        let (ip, sp) = (VirtAddr::new_truncate(r.next()), VirtAddr::new_truncate(r.next()));
        let (c, s2) = (SegmentSelector(r.next() as u16), SegmentSelector(r.next() as u16));
        let fl = RFlags::from_bits_truncate(r.next());
        let mut w = InterruptStackFrame::new(ip, c, fl, sp, s2);
        let raw: [u64; 5] = unsafe { core::ptr::read(&w as *const InterruptStackFrame as *const [u64; 5]) };
        let ok_new = raw == [ip.as_u64(), c.0 as u64, fl.bits(), sp.as_u64(), s2.0 as u64] && w.instruction_pointer == ip && w.stack_pointer == sp && w.code_segment == c && w.stack_segment == s2 && w.cpu_flags == fl;
        let ip2 = VirtAddr::new_truncate(r.next());
        unsafe { w.as_mut().update(|f| f.instruction_pointer = ip2) };
        let raw2: [u64; 5] = unsafe { core::ptr::read(&w as *const InterruptStackFrame as *const [u64; 5]) };
        if !ok_new || raw2 != [ip2.as_u64(), c.0 as u64, fl.bits(), sp.as_u64(), s2.0 as u64] {
            rep.violation("InterruptStackFrame::new/as_mut|not-the-hardware-frame-of-the-given-values", J::obj(vec![("raw", J::A(raw.iter().map(|&x| J::hex(x)).collect())), ("after_update", J::A(raw2.iter().map(|&x| J::hex(x)).collect()))]));
        }
    }
    let mut p = Params { handler: do_iretq as usize as u64, err: wrapper as u64, flags, frame_rsp, scratch_top: scratch.top(), cs: cs as u64, ss: ss as u64, mode: 1, ..Default::default() };
    // iretq on a frame value built here must land at the resume label: a fault instead (garbage popped by iretq) is reported
    crate::util::fault_means_if("C13", "InterruptStackFrameValue::iretq|fault-instead-of-transfer-to-the-frame".into(), J::obj(vec![("profile", J::s(profile_name())), ("frame_rsp", J::hex(frame_rsp)), ("frame_flags", J::hex(flags)), ("through_wrapper_type", J::Bool(wrapper))]), |_| true);
    unsafe { irqsim::deliver(&mut p as *mut Params) };
    crate::util::fault_means_nothing();
    const KEEP: u64 = ARITH | 0x400 | (1 << 21) | NT_AC;
    if p.out_path != 1 || p.out_rsp != frame_rsp || p.out_flags & KEEP != flags & KEEP {
        rep.violation("InterruptStackFrameValue::iretq|landed-with-other-rsp-or-flags", J::obj(vec![("profile", J::s(profile_name())), ("frame_rsp", J::hex(frame_rsp)), ("frame_flags", J::hex(flags)), ("rsp", J::hex(p.out_rsp)), ("rflags", J::hex(p.out_flags)), ("path", J::U(p.out_path))]));
    }
    rep.class(&format!("iretq|{}|df={}|id={}|nt={}|ac={}", if wrapper { "InterruptStackFrame" } else { "InterruptStackFrameValue" }, (flags >> 10) & 1, (flags >> 21) & 1, (flags >> 14) & 1, (flags >> 18) & 1));
}

pub fn run(a: &Args, rep: &mut Report) {
    crate::trapemu::install();
    let mut r = Rng::derive(a.seed, "c13", a.shard);
    let (cs, ss) = irqsim::own_cs_ss();
    // learn the stub addresses from a full installation into an empty table (raw bytes)
    let mut idt = Box::new(InterruptDescriptorTable::new());
    install_all(&mut idt);
    let b = bytes_of(&idt);
    let mut stubs = [0u64; 256];
    for v in 0..256 {
        rep.eval();
        let (off, sel, present, typ) = gate(&b, v);
        if reserved(v) {
            if present || off != 0 {
                rep.violation("set_general_handler(all)|reserved-vector-became-present", J::U(v as u64));
            }
            continue;
        }
        if !present || typ != 0xE || sel != cs || off == 0 {
            rep.violation("set_general_handler(all)|non-reserved-vector-not-present", J::obj(vec![("vector", J::U(v as u64)), ("offset", J::hex(off))]));
            return;
        }
        stubs[v] = off;
    }
    // one stub per vector
    let mut sorted: Vec<u64> = stubs.iter().copied().filter(|&x| x != 0).collect();
    sorted.sort_unstable();
    sorted.dedup();
    if sorted.len() != 256 - 8 {
        rep.violation("set_general_handler(all)|vectors-share-a-stub", J::U(sorted.len() as u64));
    }
    let scratch = Stack::new(1 << 18);
    let resume = Stack::new(1 << 16);
    cs_reload_between_installations(rep, &mut r, cs);
    ranges(rep, &mut r, a, &stubs, cs, &scratch, &resume, ss);
    // simulated delivery into every present vector
    let frames = a.budget(8 * 4, 4_000 * 16) / 4;
    for v in 0..256usize {
        if reserved(v) {
            continue;
        }
        for _ in 0..frames.max(2) {
            enter(rep, &mut r, &stubs, v, &scratch, &resume, cs, ss);
        }
    }
    rep.exhaustive.push("simulated delivery into all 248 non-reserved vectors (several frames each)".into());
    // a second installation with another general handler (into another table): its stubs call that handler, and the stubs
    // installed first keep calling the first one
    {
        let mut idt2 = Box::new(InterruptDescriptorTable::new());
        install_all_other(&mut idt2);
        let b2 = bytes_of(&idt2);
        let mut stubs2 = [0u64; 256];
        for v in 0..256 {
            let (off, _, present, _) = gate(&b2, v);
            if present {
                stubs2[v] = off;
            }
        }
        for v in (0..256usize).filter(|v| !reserved(*v) && (*v < 34 || v % 29 == 0 || *v == 255)) {
            EXPECT_WHO.store(2, core::sync::atomic::Ordering::Relaxed);
            enter(rep, &mut r, &stubs2, v, &scratch, &resume, cs, ss);
            EXPECT_WHO.store(1, core::sync::atomic::Ordering::Relaxed);
            enter(rep, &mut r, &stubs, v, &scratch, &resume, cs, ss);
        }
        rep.class("enter|two-installations-with-different-handlers");
    }
    let n = a.budget(2_000, 1_000_000);
    for _ in 0..n {
        iretq_case(rep, &mut r, &scratch, &resume, cs, ss);
    }
}
