//! C16 — system-register wrappers hit the right register and never lose bits.
//! Oracle (E4): the trapped instruction sequence (register number from ModRM / ECX, operand values) and the
//! emulated register file afterwards versus a per-wrapper contract; the real CPU for instructions that run in ring 3.

use crate::gen;
use crate::trapemu::{self, Event, K};
use crate::util::{profile_name, Args, Report, Rng, J};
use core::arch::asm;
use x86_64::instructions::segmentation::{Segment, Segment64, CS, DS, ES, FS, GS, SS};
use x86_64::instructions::tables::load_tss;
use x86_64::instructions::tlb::Pcid;
use x86_64::registers::control::{Cr0, Cr0Flags, Cr2, Cr3, Cr3Flags, Cr4, Cr4Flags, Efer, EferFlags};
use x86_64::registers::debug::{DebugAddressRegister, Dr0, Dr1, Dr2, Dr3, Dr6, Dr7, Dr7Value};
use x86_64::registers::model_specific::{ApicBase, ApicBaseFlags, CetFlags, FsBase, GsBase, KernelGsBase, LStar, Msr, Pat, PatMemoryType, SCet, SFMask, Star, UCet};
use x86_64::registers::rflags::{self, RFlags};
use x86_64::registers::xcontrol::{XCr0, XCr0Flags};
use x86_64::registers::mxcsr::{self, MxCsr};
use x86_64::structures::gdt::SegmentSelector;
use x86_64::structures::paging::{Page, PhysFrame, Size4KiB};
use x86_64::{PhysAddr, PrivilegeLevel, VirtAddr};

// independently transcribed numbers (SDM vol. 4 / APM vol. 2)
const MSR_EFER: u32 = 0xC000_0080;
const MSR_STAR: u32 = 0xC000_0081;
const MSR_LSTAR: u32 = 0xC000_0082;
const MSR_SFMASK: u32 = 0xC000_0084;
const MSR_FS_BASE: u32 = 0xC000_0100;
const MSR_GS_BASE: u32 = 0xC000_0101;
const MSR_KERNEL_GS_BASE: u32 = 0xC000_0102;
const MSR_U_CET: u32 = 0x6A0;
const MSR_S_CET: u32 = 0x6A2;
const MSR_PAT: u32 = 0x277;
const MSR_APIC_BASE: u32 = 0x1B;
const DR7_MODELLED: u64 = 0xffff_0000 | 0x3ff | (1 << 11) | (1 << 13);
const PHYS_FRAME_BITS: u64 = 0x000f_ffff_ffff_f000;

/// "modelled" = the bits the crate's flag type defines (whether those are the architecturally right bits is C19's question)
#[allow(non_snake_case)]
fn CR0_MODELLED() -> u64 { Cr0Flags::all().bits() }
#[allow(non_snake_case)]
fn DR6_MODELLED() -> u64 { x86_64::registers::debug::Dr6Flags::all().bits() }
#[allow(non_snake_case)]
fn EFER_MODELLED() -> u64 { EferFlags::all().bits() }
#[allow(non_snake_case)]
fn XCR0_MODELLED() -> u64 { XCr0Flags::all().bits() }
#[allow(non_snake_case)]
fn CET_FLAGS() -> u64 { CetFlags::all().bits() }
#[allow(non_snake_case)]
fn APIC_FLAGS() -> u64 { ApicBaseFlags::all().bits() }
#[allow(non_snake_case)]
fn RFLAGS_MODELLED() -> u64 { RFlags::all().bits() }
fn cr4_modelled() -> u64 { Cr4Flags::all().bits() }

struct T<'a> {
    rep: &'a mut Report,
    r: Rng,
}

fn evj(evs: &[Event]) -> J {
    J::A(evs.iter().take(8).map(|e| J::s(trapemu::fmt_event(e))).collect())
}

impl<'a> T<'a> {
    fn bad(&mut self, wrapper: &str, what: &str, detail: Vec<(&str, J)>, evs: &[Event]) {
        let mut d = detail;
        d.push(("events", evj(evs)));
        d.push(("profile", J::s(profile_name())));
        self.rep.violation(&format!("{}|{}", wrapper, what), J::obj(d));
    }
    /// all events must be of kinds `reads`/`write` on register n; exactly `nwrites` writes, the last event is the write
    fn shape(&mut self, wrapper: &str, evs: &[Event], read_kind: K, write_kind: K, n: u32, nwrites: usize, min_reads: usize) -> bool {
        let mut reads = 0;
        let mut writes = 0;
        for e in evs {
            if e.kind == read_kind && e.n == n {
                reads += 1;
            } else if e.kind == write_kind && e.n == n {
                writes += 1;
            } else if e.kind == read_kind || e.kind == write_kind {
                self.bad(wrapper, "accessed-wrong-register", vec![("expected_register", J::hex(n as u64)), ("got_register", J::hex(e.n as u64))], evs);
                return false;
            } else {
                self.bad(wrapper, "unexpected-privileged-instruction", vec![], evs);
                return false;
            }
        }
        if writes != nwrites || reads < min_reads || (nwrites > 0 && evs.last().map(|e| e.kind) != Some(write_kind)) {
            let what = if writes < nwrites { "missing-register-write" } else if writes > nwrites { "extra-register-write" } else if reads < min_reads { "missing-register-read" } else { "write-is-not-last-access" };
            self.bad(wrapper, what, vec![("register", J::hex(n as u64))], evs);
            return false;
        }
        true
    }
    fn u64v(&mut self) -> u64 {
        gen::u64_edge(&mut self.r).0
    }
}

macro_rules! flag_reg {
    ($t:expr, $name:literal, $Reg:ident, $Flags:ident, $num:expr, $modelled:expr, $rk:expr, $wk:expr, $set:expr, $get:expr) => {{
        let t: &mut T = $t;
        let prior: u64 = t.u64v();
        let arg_bits: u64 = t.u64v();
        let set: fn(u64) = $set;
        let get: fn() -> u64 = $get;
        // read_raw
        set(prior);
        let (v, evs) = trapemu::trapped(|| $Reg::read_raw());
        t.rep.eval();
        if t.shape(concat!($name, "::read_raw"), &evs, $rk, $wk, $num, 0, 1) && v != prior {
            t.bad(concat!($name, "::read_raw"), "value-differs-from-register", vec![("register", J::hex(prior)), ("returned", J::hex(v))], &evs);
        }
        // read
        let (v, evs) = trapemu::trapped(|| $Reg::read());
        t.rep.eval();
        if t.shape(concat!($name, "::read"), &evs, $rk, $wk, $num, 0, 1) && v.bits() != prior & $modelled {
            t.bad(concat!($name, "::read"), "not-the-modelled-bits-of-raw", vec![("register", J::hex(prior)), ("returned", J::hex(v.bits()))], &evs);
        }
        // write (typed): preserves every non-modelled bit
        let flags = $Flags::from_bits_truncate(arg_bits);
        set(prior);
        let (_, evs) = trapemu::trapped(|| unsafe { $Reg::write(flags) });
        t.rep.eval();
        let exp = (prior & !$modelled) | (arg_bits & $modelled);
        if t.shape(concat!($name, "::write"), &evs, $rk, $wk, $num, 1, 1) {
            let w = evs.last().unwrap().val;
            if w != exp || get() != exp {
                let what = if (w ^ exp) & !$modelled != 0 { "lost-or-changed-unmodelled-bits" } else { "stored-wrong-flags" };
                t.bad(concat!($name, "::write"), what, vec![("prior", J::hex(prior)), ("flags", J::hex(flags.bits())), ("expected", J::hex(exp)), ("written", J::hex(w))], &evs);
            }
        }
        // write_raw: exact
        set(prior);
        let (_, evs) = trapemu::trapped(|| unsafe { $Reg::write_raw(arg_bits) });
        t.rep.eval();
        if t.shape(concat!($name, "::write_raw"), &evs, $rk, $wk, $num, 1, 0) && (evs.last().unwrap().val != arg_bits || get() != arg_bits) {
            t.bad(concat!($name, "::write_raw"), "not-exactly-the-given-value", vec![("value", J::hex(arg_bits)), ("written", J::hex(evs.last().unwrap().val))], &evs);
        }
        // update == read-modify-write
        set(prior);
        let tog = t.u64v() & $modelled;
        let (_, evs) = trapemu::trapped(|| unsafe { $Reg::update(|f| *f = $Flags::from_bits_truncate(f.bits() ^ tog)) });
        t.rep.eval();
        let exp = (prior & !$modelled) | ((prior ^ tog) & $modelled);
        if t.shape(concat!($name, "::update"), &evs, $rk, $wk, $num, 1, 1) && (evs.last().unwrap().val != exp || get() != exp) {
            t.bad(concat!($name, "::update"), "not-read-modify-write", vec![("prior", J::hex(prior)), ("toggle", J::hex(tog)), ("expected", J::hex(exp)), ("written", J::hex(evs.last().unwrap().val))], &evs);
        }
        // ... also when the closure changes nothing: the register is still written (with what was read)
        set(prior);
        let (_, evs) = trapemu::trapped(|| unsafe { $Reg::update(|_f| {}) });
        t.rep.eval();
        if t.shape(concat!($name, "::update(identity)"), &evs, $rk, $wk, $num, 1, 1) && evs.last().unwrap().val != prior {
            t.bad(concat!($name, "::update(identity)"), "not-read-modify-write", vec![("prior", J::hex(prior)), ("written", J::hex(evs.last().unwrap().val))], &evs);
        }
        // typed write -> typed read round trip
        set(prior);
        let (v, _) = trapemu::trapped(|| unsafe {
            $Reg::write(flags);
            $Reg::read()
        });
        if v != flags {
            t.bad(concat!($name, "::write->read"), "round-trip-differs", vec![("written", J::hex(flags.bits())), ("read", J::hex(v.bits()))], &[]);
        }
        t.rep.class(&format!("{}|prior-unmodelled={}|arg={}", $name, (prior & !$modelled != 0), if arg_bits & $modelled == 0 { "none" } else if arg_bits & $modelled == $modelled { "all" } else { "some" }));
    }};
}

fn cr_tests(t: &mut T) {
    flag_reg!(t, "Cr0", Cr0, Cr0Flags, 0, CR0_MODELLED(), K::MovFromCr, K::MovToCr, |v| trapemu::regs().cr[0] = v, || trapemu::regs().cr[0]);
    let m4 = cr4_modelled();
    flag_reg!(t, "Cr4", Cr4, Cr4Flags, 4, m4, K::MovFromCr, K::MovToCr, |v| trapemu::regs().cr[4] = v, || trapemu::regs().cr[4]);
    // the MOV must carry the full 64-bit value in a GPR (REX.W is implied for mov crN)
    // Cr2
    let prior = t.u64v();
    trapemu::regs().cr[2] = prior;
    let (v, evs) = trapemu::trapped(|| Cr2::read_raw());
    t.rep.eval();
    if t.shape("Cr2::read_raw", &evs, K::MovFromCr, K::MovToCr, 2, 0, 1) && v != prior {
        t.bad("Cr2::read_raw", "value-differs-from-register", vec![("register", J::hex(prior)), ("returned", J::hex(v))], &evs);
    }
    let (v, evs) = trapemu::trapped(|| Cr2::read());
    t.rep.eval();
    if t.shape("Cr2::read", &evs, K::MovFromCr, K::MovToCr, 2, 0, 1) {
        let ok = match &v {
            Ok(a) => gen::is_canonical(prior) && a.as_u64() == prior,
            Err(e) => !gen::is_canonical(prior) && e.0 == prior,
        };
        if !ok {
            t.bad("Cr2::read", "wrong-result", vec![("register", J::hex(prior))], &evs);
        }
    }
    t.rep.class(&format!("Cr2|canonical={}", gen::is_canonical(prior)));
}

fn cr3_tests(t: &mut T) {
    let frame_bits = gen::phys(&mut t.r).0 & PHYS_FRAME_BITS;
    let low = t.r.next() & 0xfff;
    let prior = frame_bits | low;
    let set = |v: u64| trapemu::regs().cr[3] = v;
    let get = || trapemu::regs().cr[3];
    // reads
    set(prior);
    let ((f, fl), evs) = trapemu::trapped(|| Cr3::read());
    t.rep.eval();
    if t.shape("Cr3::read", &evs, K::MovFromCr, K::MovToCr, 3, 0, 1) && (f.start_address().as_u64() != frame_bits || fl.bits() != low & 0x18) {
        t.bad("Cr3::read", "wrong-frame-or-flags", vec![("register", J::hex(prior)), ("frame", J::hex(f.start_address().as_u64())), ("flags", J::hex(fl.bits()))], &evs);
    }
    let ((f, raw), evs) = trapemu::trapped(|| Cr3::read_raw());
    t.rep.eval();
    if t.shape("Cr3::read_raw", &evs, K::MovFromCr, K::MovToCr, 3, 0, 1) && (f.start_address().as_u64() != frame_bits || raw as u64 != low) {
        t.bad("Cr3::read_raw", "wrong-frame-or-low-bits", vec![("register", J::hex(prior))], &evs);
    }
    let ((f, pc), evs) = trapemu::trapped(|| Cr3::read_pcid());
    t.rep.eval();
    if t.shape("Cr3::read_pcid", &evs, K::MovFromCr, K::MovToCr, 3, 0, 1) && (f.start_address().as_u64() != frame_bits || pc.value() as u64 != low) {
        t.bad("Cr3::read_pcid", "wrong-frame-or-pcid", vec![("register", J::hex(prior))], &evs);
    }
    // writes
    let nf = gen::phys(&mut t.r).0 & PHYS_FRAME_BITS;
    let nframe = PhysFrame::<Size4KiB>::containing_address(PhysAddr::new(nf));
    let nflags = Cr3Flags::from_bits_truncate(t.r.next());
    // a PCID has 12 bits: 4096 and above are refused (they would spill into the address bits of CR3)
    for v in [4095u16, 4096, 4097, 0x1000 | (t.r.next() as u16 & 0xfff), 0x8000, 0xffff] {
        t.rep.eval();
        if Pcid::new(v).is_ok() != (v < 4096) {
            t.rep.violation("Pcid::new|accepts-a-value-that-does-not-fit-12-bits", J::U(v as u64));
        }
    }
    let npcid = Pcid::new((t.r.next() & 0xfff) as u16).unwrap();
    let nraw = (t.r.next() & 0xfff) as u16;
    let mut one = |t: &mut T, name: &str, expect_written: u64, f: &dyn Fn()| {
        set(prior);
        let (_, evs) = trapemu::trapped(|| f());
        t.rep.eval();
        if t.shape(name, &evs, K::MovFromCr, K::MovToCr, 3, 1, 0) {
            let w = evs.last().unwrap().val;
            if w != expect_written || get() != expect_written & !(1 << 63) {
                t.bad(name, "wrote-wrong-value", vec![("expected", J::hex(expect_written)), ("written", J::hex(w))], &evs);
            }
        }
    };
    one(t, "Cr3::write", nf | nflags.bits(), &|| unsafe { Cr3::write(nframe, nflags) });
    one(t, "Cr3::write_pcid", nf | npcid.value() as u64, &|| unsafe { Cr3::write_pcid(nframe, npcid) });
    one(t, "Cr3::write_pcid_no_flush", (1 << 63) | nf | npcid.value() as u64, &|| unsafe { Cr3::write_pcid_no_flush(nframe, npcid) });
    one(t, "Cr3::write_raw", nf | nraw as u64, &|| unsafe { Cr3::write_raw(nframe, nraw) });
    // round trips
    set(prior);
    let (back, _) = trapemu::trapped(|| unsafe {
        Cr3::write(nframe, nflags);
        Cr3::read()
    });
    if back != (nframe, nflags) {
        t.bad("Cr3::write->read", "round-trip-differs", vec![("frame", J::hex(nf)), ("flags", J::hex(nflags.bits()))], &[]);
    }
    for noflush in [false, true] {
        set(prior);
        let (back, _) = trapemu::trapped(|| unsafe {
            if noflush {
                Cr3::write_pcid_no_flush(nframe, npcid)
            } else {
                Cr3::write_pcid(nframe, npcid)
            }
            Cr3::read_pcid()
        });
        t.rep.eval();
        if back != (nframe, npcid) {
            t.bad("Cr3::write_pcid->read_pcid", "round-trip-differs", vec![("frame", J::hex(nf)), ("pcid", J::hex(npcid.value() as u64)), ("no_flush", J::Bool(noflush))], &[]);
        }
    }
    // update = read-modify-write (typed: frame + the two flags)
    set(prior);
    let (_, evs) = trapemu::trapped(|| unsafe {
        Cr3::update(|f, fl| {
            *f = nframe;
            *fl = Cr3Flags::from_bits_truncate(fl.bits() ^ 0x8);
        })
    });
    t.rep.eval();
    let exp = nf | ((low & 0x18) ^ 0x8);
    if t.shape("Cr3::update", &evs, K::MovFromCr, K::MovToCr, 3, 1, 1) && evs.last().unwrap().val != exp {
        t.bad("Cr3::update", "not-read-modify-write", vec![("expected", J::hex(exp)), ("written", J::hex(evs.last().unwrap().val))], &evs);
    }
    // an update whose closure changes nothing still reloads CR3 (the flush is the point), with the modelled bits only
    set(prior);
    let (_, evs) = trapemu::trapped(|| unsafe { Cr3::update(|_f, _fl| {}) });
    t.rep.eval();
    if t.shape("Cr3::update(identity)", &evs, K::MovFromCr, K::MovToCr, 3, 1, 1) && evs.last().unwrap().val != frame_bits | (low & 0x18) {
        t.bad("Cr3::update(identity)", "not-read-modify-write", vec![("prior", J::hex(prior)), ("written", J::hex(evs.last().unwrap().val))], &evs);
    }
    set(prior);
    let (_, evs) = trapemu::trapped(|| unsafe { Cr3::update_pcid(|_f, _p| {}) });
    t.rep.eval();
    let _ = t.shape("Cr3::update_pcid(identity)", &evs, K::MovFromCr, K::MovToCr, 3, 1, 1);
    set(prior);
    let (_, evs) = trapemu::trapped(|| unsafe { Cr3::update_pcid(|f, _p| *f = nframe) });
    t.rep.eval();
    let exp = nf | low;
    if t.shape("Cr3::update_pcid", &evs, K::MovFromCr, K::MovToCr, 3, 1, 1) && evs.last().unwrap().val != exp {
        t.bad("Cr3::update_pcid", "not-read-modify-write", vec![("expected", J::hex(exp)), ("written", J::hex(evs.last().unwrap().val))], &evs);
    }
    set(prior);
    let (_, evs) = trapemu::trapped(|| unsafe { Cr3::update_pcid_no_flush(|_f, p| *p = npcid) });
    t.rep.eval();
    let exp = (1 << 63) | frame_bits | npcid.value() as u64;
    if t.shape("Cr3::update_pcid_no_flush", &evs, K::MovFromCr, K::MovToCr, 3, 1, 1) && evs.last().unwrap().val != exp {
        t.bad("Cr3::update_pcid_no_flush", "not-read-modify-write", vec![("expected", J::hex(exp)), ("written", J::hex(evs.last().unwrap().val))], &evs);
    }
    t.rep.class(&format!("Cr3|frame={}|low={}", if frame_bits == 0 { "0" } else if frame_bits == PHYS_FRAME_BITS { "max" } else { "mid" }, if low == 0 { "0" } else if low & !0x18 == 0 { "flags-only" } else { "pcid" }));
}

fn dr_tests(t: &mut T) {
    macro_rules! dr {
        ($D:ident, $n:expr) => {{
            let prior = t.u64v();
            trapemu::regs().dr[$n] = prior;
            let (v, evs) = trapemu::trapped(|| $D::read());
            t.rep.eval();
            if t.shape(concat!(stringify!($D), "::read"), &evs, K::MovFromDr, K::MovToDr, $n, 0, 1) && v != prior {
                t.bad(concat!(stringify!($D), "::read"), "value-differs-from-register", vec![("register", J::hex(prior)), ("returned", J::hex(v))], &evs);
            }
            let nv = t.u64v();
            let (_, evs) = trapemu::trapped(|| $D::write(nv));
            t.rep.eval();
            if t.shape(concat!(stringify!($D), "::write"), &evs, K::MovFromDr, K::MovToDr, $n, 1, 0) && (evs[0].val != nv || trapemu::regs().dr[$n] != nv) {
                t.bad(concat!(stringify!($D), "::write"), "not-exactly-the-given-value", vec![("value", J::hex(nv)), ("written", J::hex(evs[0].val))], &evs);
            }
            if $D::NUM.get() as usize != $n {
                t.bad(concat!(stringify!($D), "::NUM"), "wrong-number", vec![], &[]);
            }
            t.rep.class(concat!(stringify!($D), "|rw"));
        }};
    }
    dr!(Dr0, 0);
    dr!(Dr1, 1);
    dr!(Dr2, 2);
    dr!(Dr3, 3);
    // Dr6
    let prior = t.u64v();
    trapemu::regs().dr[6] = prior;
    let (v, evs) = trapemu::trapped(|| Dr6::read_raw());
    t.rep.eval();
    if t.shape("Dr6::read_raw", &evs, K::MovFromDr, K::MovToDr, 6, 0, 1) && v != prior {
        t.bad("Dr6::read_raw", "value-differs-from-register", vec![("register", J::hex(prior))], &evs);
    }
    let (v, evs) = trapemu::trapped(|| Dr6::read());
    t.rep.eval();
    if t.shape("Dr6::read", &evs, K::MovFromDr, K::MovToDr, 6, 0, 1) && v.bits() != prior & DR6_MODELLED() {
        t.bad("Dr6::read", "not-the-modelled-bits-of-raw", vec![("register", J::hex(prior)), ("returned", J::hex(v.bits()))], &evs);
    }
    // Dr7
    let prior = t.u64v();
    let set = |v: u64| trapemu::regs().dr[7] = v;
    set(prior);
    let (v, evs) = trapemu::trapped(|| Dr7::read_raw());
    t.rep.eval();
    if t.shape("Dr7::read_raw", &evs, K::MovFromDr, K::MovToDr, 7, 0, 1) && v != prior {
        t.bad("Dr7::read_raw", "value-differs-from-register", vec![("register", J::hex(prior))], &evs);
    }
    let (v, evs) = trapemu::trapped(|| Dr7::read());
    t.rep.eval();
    if t.shape("Dr7::read", &evs, K::MovFromDr, K::MovToDr, 7, 0, 1) && v.bits() != prior & DR7_MODELLED {
        t.bad("Dr7::read", "not-the-modelled-bits-of-raw", vec![("register", J::hex(prior)), ("returned", J::hex(v.bits()))], &evs);
    }
    let arg = t.u64v();
    let val = Dr7Value::from_bits_truncate(arg);
    set(prior);
    let (_, evs) = trapemu::trapped(|| Dr7::write(val));
    t.rep.eval();
    let exp = (prior & !DR7_MODELLED) | (arg & DR7_MODELLED);
    if t.shape("Dr7::write", &evs, K::MovFromDr, K::MovToDr, 7, 1, 1) && evs.last().unwrap().val != exp {
        let w = evs.last().unwrap().val;
        let what = if (w ^ exp) & !DR7_MODELLED != 0 { "lost-or-changed-unmodelled-bits" } else { "stored-wrong-fields" };
        t.bad("Dr7::write", what, vec![("prior", J::hex(prior)), ("value", J::hex(val.bits())), ("expected", J::hex(exp)), ("written", J::hex(w))], &evs);
    }
    set(prior);
    let (_, evs) = trapemu::trapped(|| Dr7::write_raw(arg));
    t.rep.eval();
    if t.shape("Dr7::write_raw", &evs, K::MovFromDr, K::MovToDr, 7, 1, 0) && evs[0].val != arg {
        t.bad("Dr7::write_raw", "not-exactly-the-given-value", vec![("value", J::hex(arg))], &evs);
    }
    set(prior);
    let (_, evs) = trapemu::trapped(|| Dr7::update(|_v| {}));
    t.rep.eval();
    let _ = t.shape("Dr7::update(identity)", &evs, K::MovFromDr, K::MovToDr, 7, 1, 1);
    set(prior);
    let tog = t.u64v() & DR7_MODELLED;
    let (_, evs) = trapemu::trapped(|| Dr7::update(|v| *v = Dr7Value::from_bits_truncate(v.bits() ^ tog)));
    t.rep.eval();
    let exp = (prior & !DR7_MODELLED) | ((prior ^ tog) & DR7_MODELLED);
    if t.shape("Dr7::update", &evs, K::MovFromDr, K::MovToDr, 7, 1, 1) && evs.last().unwrap().val != exp {
        t.bad("Dr7::update", "not-read-modify-write", vec![("expected", J::hex(exp)), ("written", J::hex(evs.last().unwrap().val))], &evs);
    }
    set(prior);
    let (back, _) = trapemu::trapped(|| {
        Dr7::write(val);
        Dr7::read()
    });
    if back != val {
        t.bad("Dr7::write->read", "round-trip-differs", vec![("value", J::hex(val.bits())), ("read", J::hex(back.bits()))], &[]);
    }
    t.rep.class(&format!("Dr7|prior-unmodelled={}", prior & !DR7_MODELLED != 0));
}

fn own_xgetbv() -> u64 {
    let (lo, hi): (u32, u32);
    unsafe { asm!("xgetbv", in("ecx") 0, out("eax") lo, out("edx") hi, options(nomem, nostack)) };
    ((hi as u64) << 32) | lo as u64
}

fn xcr0_valid(f: u64) -> bool {
    let has = |b: u32| f & (1 << b) != 0;
    if !has(0) {
        return false;
    }
    if has(2) && !has(1) {
        return false;
    }
    if has(3) != has(4) {
        return false;
    }
    let any512 = has(5) || has(6) || has(7);
    if any512 && !(has(2) && has(5) && has(6) && has(7)) {
        return false;
    }
    true
}

fn xcr0_tests(t: &mut T) {
    let host = own_xgetbv();
    let (v, evs) = trapemu::trapped(|| XCr0::read_raw());
    t.rep.eval();
    if v != host || !evs.is_empty() {
        t.bad("XCr0::read_raw", "differs-from-cpu-xgetbv", vec![("cpu", J::hex(host)), ("returned", J::hex(v))], &evs);
    }
    let (v, _) = trapemu::trapped(|| XCr0::read());
    if v.bits() != host & XCR0_MODELLED() {
        t.bad("XCr0::read", "not-the-modelled-bits-of-raw", vec![("cpu", J::hex(host)), ("returned", J::hex(v.bits()))], &[]);
    }
    // typed write: all 2^8 combinations of bits 0..7 (the constrained ones) + random bits 9, 62
    let combo = (t.r.next() & 0xff) | if t.r.chance(1, 2) { 1 << 9 } else { 0 } | if t.r.chance(1, 4) { 1 << 62 } else { 0 };
    let flags = XCr0Flags::from_bits_truncate(combo);
    let (res, evs) = trapemu::trapped_catch(|| unsafe { XCr0::write(flags) });
    t.rep.eval();
    let valid = xcr0_valid(combo);
    match (&res, valid) {
        (Ok(()), true) => {
            let exp = (host & !XCR0_MODELLED()) | combo;
            if evs.len() != 1 || evs[0].kind != K::Xsetbv || evs[0].n != 0 || evs[0].val != exp {
                t.bad("XCr0::write", "wrong-xsetbv", vec![("flags", J::hex(combo)), ("expected", J::hex(exp))], &evs);
            }
        }
        (Err(_), false) => {
            if !evs.is_empty() {
                t.bad("XCr0::write", "wrote-before-rejecting", vec![("flags", J::hex(combo))], &evs);
            }
        }
        (Ok(()), false) => t.bad("XCr0::write", "accepted-documented-invalid-combination", vec![("flags", J::hex(combo))], &evs),
        (Err(m), true) => t.bad("XCr0::write", "rejected-valid-combination", vec![("flags", J::hex(combo)), ("panic", J::s(m.clone()))], &evs),
    }
    let raw = t.u64v();
    let (_, evs) = trapemu::trapped(|| unsafe { XCr0::write_raw(raw) });
    t.rep.eval();
    if evs.len() != 1 || evs[0].kind != K::Xsetbv || evs[0].n != 0 || evs[0].val != raw {
        t.bad("XCr0::write_raw", "not-exactly-the-given-value", vec![("value", J::hex(raw))], &evs);
    }
    // update: read (native) - modify - write
    let (res, evs) = trapemu::trapped_catch(|| unsafe { XCr0::update(|f| f.insert(XCr0Flags::MPK)) });
    t.rep.eval();
    let cur = host & XCR0_MODELLED();
    if xcr0_valid(cur) {
        let exp = (host & !XCR0_MODELLED()) | cur | (1 << 9);
        if res.is_err() || evs.len() != 1 || evs[0].kind != K::Xsetbv || evs[0].val != exp {
            t.bad("XCr0::update", "not-read-modify-write", vec![("expected", J::hex(exp))], &evs);
        }
    }
    t.rep.class(&format!("XCr0|combo-valid={}|{:#x}", valid, combo & 0xff));
}

fn msr_shape(t: &mut T, name: &str, evs: &[Event], n: u32, nwrites: usize, min_reads: usize) -> bool {
    t.shape(name, evs, K::Rdmsr, K::Wrmsr, n, nwrites, min_reads)
}

fn msr_tests(t: &mut T) {
    let regs = trapemu::regs();
    regs.msr_clear();
    // generic Msr
    let n = match t.r.below(4) {
        0 => *t.r.pick(&[MSR_EFER, MSR_STAR, MSR_LSTAR, MSR_FS_BASE, MSR_PAT, MSR_APIC_BASE, 0, u32::MAX, 0x10, 0x174]),
        _ => t.r.next() as u32,
    };
    let prior = t.u64v();
    trapemu::regs().msr_set(n, prior);
    let msr = Msr::new(n);
    let (v, evs) = trapemu::trapped(|| unsafe { msr.read() });
    t.rep.eval();
    if msr_shape(t, "Msr::read", &evs, n, 0, 1) && v != prior {
        t.bad("Msr::read", "value-differs-from-register", vec![("msr", J::hex(n as u64)), ("register", J::hex(prior)), ("returned", J::hex(v))], &evs);
    }
    let nv = t.u64v();
    let mut msr = Msr::new(n);
    let (_, evs) = trapemu::trapped(|| unsafe { msr.write(nv) });
    t.rep.eval();
    if msr_shape(t, "Msr::write", &evs, n, 1, 0) && (evs[0].val != nv || trapemu::regs().msr_get(n) != nv) {
        t.bad("Msr::write", "edx:eax-not-the-given-value", vec![("msr", J::hex(n as u64)), ("value", J::hex(nv)), ("edx:eax", J::hex(evs[0].val))], &evs);
    }
    t.rep.class(&format!("Msr|n-class={}", if n >= 0xC000_0000 { "amd-range" } else if n < 0x1000 { "low" } else { "other" }));

    // Efer
    flag_reg!(t, "Efer", Efer, EferFlags, MSR_EFER, EFER_MODELLED(), K::Rdmsr, K::Wrmsr, |v| trapemu::regs().msr_set(MSR_EFER, v), || trapemu::regs().msr_get(MSR_EFER));
    if Efer::MSR_NUM_CHECK() != MSR_EFER {
        t.bad("Efer::MSR", "wrong-number", vec![], &[]);
    }

    // address MSRs
    macro_rules! addr_msr {
        ($R:ident, $num:expr) => {{
            let a = gen::canon(&mut t.r).0;
            trapemu::regs().msr_set($num, a);
            let (v, evs) = trapemu::trapped(|| $R::read());
            t.rep.eval();
            if msr_shape(t, concat!(stringify!($R), "::read"), &evs, $num, 0, 1) && v.as_u64() != a {
                t.bad(concat!(stringify!($R), "::read"), "value-differs-from-register", vec![("register", J::hex(a)), ("returned", J::hex(v.as_u64()))], &evs);
            }
            let b = gen::canon(&mut t.r).0;
            let (_, evs) = trapemu::trapped(|| $R::write(VirtAddr::new(b)));
            t.rep.eval();
            if msr_shape(t, concat!(stringify!($R), "::write"), &evs, $num, 1, 0) && evs[0].val != b {
                t.bad(concat!(stringify!($R), "::write"), "not-exactly-the-given-address", vec![("address", J::hex(b)), ("written", J::hex(evs[0].val))], &evs);
            }
            let (v, _) = trapemu::trapped(|| $R::read());
            if v.as_u64() != b {
                t.bad(concat!(stringify!($R), "::write->read"), "round-trip-differs", vec![("address", J::hex(b))], &[]);
            }
            t.rep.class(&format!("{}|{}", stringify!($R), gen::half(b)));
        }};
    }
    addr_msr!(FsBase, MSR_FS_BASE);
    addr_msr!(GsBase, MSR_GS_BASE);
    addr_msr!(KernelGsBase, MSR_KERNEL_GS_BASE);
    addr_msr!(LStar, MSR_LSTAR);

    star_tests(t);

    // SFMask: any 32-bit mask can be held by the register
    let prior = match t.r.below(4) {
        0 => t.r.next() & RFLAGS_MODELLED(),
        1 => 0xffff_ffff,
        _ => t.r.next() & 0xffff_ffff,
    };
    trapemu::regs().msr_set(MSR_SFMASK, prior);
    let (res, evs) = trapemu::trapped_catch(|| SFMask::read());
    t.rep.eval();
    match res {
        Ok(v) => {
            if msr_shape(t, "SFMask::read", &evs, MSR_SFMASK, 0, 1) && v.bits() != prior & RFLAGS_MODELLED() {
                t.bad("SFMask::read", "not-the-modelled-bits-of-raw", vec![("register", J::hex(prior)), ("returned", J::hex(v.bits()))], &evs);
            }
        }
        Err(m) => t.bad("SFMask::read", "panics-on-unmodelled-bits-in-register", vec![("register", J::hex(prior)), ("panic", J::s(m))], &evs),
    }
    let nm = RFlags::from_bits_truncate(t.r.next());
    let (_, evs) = trapemu::trapped(|| SFMask::write(nm));
    t.rep.eval();
    if msr_shape(t, "SFMask::write", &evs, MSR_SFMASK, 1, 0) && evs[0].val != nm.bits() {
        t.bad("SFMask::write", "stored-wrong-mask", vec![("mask", J::hex(nm.bits())), ("written", J::hex(evs[0].val))], &evs);
    }
    let (v, _) = trapemu::trapped(|| SFMask::read());
    if v != nm {
        t.bad("SFMask::write->read", "round-trip-differs", vec![("mask", J::hex(nm.bits()))], &[]);
    }
    trapemu::regs().msr_set(MSR_SFMASK, prior & RFLAGS_MODELLED());
    let (_, evs) = trapemu::trapped(|| SFMask::update(|f| f.toggle(RFlags::INTERRUPT_FLAG)));
    t.rep.eval();
    if msr_shape(t, "SFMask::update", &evs, MSR_SFMASK, 1, 1) && evs.last().unwrap().val != (prior & RFLAGS_MODELLED()) ^ 0x200 {
        t.bad("SFMask::update", "not-read-modify-write", vec![("prior", J::hex(prior & RFLAGS_MODELLED()))], &evs);
    }
    trapemu::regs().msr_set(MSR_SFMASK, prior & RFLAGS_MODELLED());
    let (_, evs) = trapemu::trapped(|| SFMask::update(|_f| {}));
    t.rep.eval();
    let _ = msr_shape(t, "SFMask::update(identity)", &evs, MSR_SFMASK, 1, 1);
    t.rep.class(&format!("SFMask|prior-unmodelled={}", prior & !RFLAGS_MODELLED() != 0));

    // U_CET / S_CET
    macro_rules! cet {
        ($R:ident, $num:expr) => {{
            let page = gen::canon(&mut t.r).0 & !0xfff;
            let fl = t.r.next() & CET_FLAGS();
            let prior = page | fl;
            trapemu::regs().msr_set($num, prior);
            let ((f, p), evs) = trapemu::trapped(|| $R::read());
            t.rep.eval();
            if msr_shape(t, concat!(stringify!($R), "::read"), &evs, $num, 0, 1) && (f.bits() != fl || p.start_address().as_u64() != page) {
                t.bad(concat!(stringify!($R), "::read"), "wrong-flags-or-page", vec![("register", J::hex(prior)), ("flags", J::hex(f.bits())), ("page", J::hex(p.start_address().as_u64()))], &evs);
            }
            let npage = gen::canon(&mut t.r).0 & !0xfff;
            let nfl = CetFlags::from_bits_truncate(t.r.next());
            let pg = Page::<Size4KiB>::containing_address(VirtAddr::new(npage));
            let (_, evs) = trapemu::trapped(|| $R::write(nfl, pg));
            t.rep.eval();
            if msr_shape(t, concat!(stringify!($R), "::write"), &evs, $num, 1, 0) && evs[0].val != npage | nfl.bits() {
                t.bad(concat!(stringify!($R), "::write"), "stored-wrong-value", vec![("expected", J::hex(npage | nfl.bits())), ("written", J::hex(evs[0].val))], &evs);
            }
            let (back, _) = trapemu::trapped(|| $R::read());
            if back != (nfl, pg) {
                t.bad(concat!(stringify!($R), "::write->read"), "round-trip-differs", vec![], &[]);
            }
            trapemu::regs().msr_set($num, prior);
            let (_, evs) = trapemu::trapped(|| $R::update(|f, p| {
                f.toggle(CetFlags::IBT_ENABLE);
                *p = pg;
            }));
            t.rep.eval();
            if msr_shape(t, concat!(stringify!($R), "::update"), &evs, $num, 1, 1) && evs.last().unwrap().val != npage | (fl ^ 4) {
                t.bad(concat!(stringify!($R), "::update"), "not-read-modify-write", vec![], &evs);
            }
            trapemu::regs().msr_set($num, prior);
            let (_, evs) = trapemu::trapped(|| $R::update(|_f, _p| {}));
            t.rep.eval();
            let _ = msr_shape(t, concat!(stringify!($R), "::update(identity)"), &evs, $num, 1, 1);
            t.rep.class(&format!("{}|{}", stringify!($R), gen::half(npage)));
        }};
    }
    cet!(UCet, MSR_U_CET);
    cet!(SCet, MSR_S_CET);

    // PAT
    const ENC: [u8; 6] = [0, 1, 4, 5, 6, 7];
    let mut bytes = [0u8; 8];
    for b in bytes.iter_mut() {
        *b = *t.r.pick(&ENC);
    }
    let prior = u64::from_le_bytes(bytes);
    trapemu::regs().msr_set(MSR_PAT, prior);
    let (tab, evs) = trapemu::trapped(|| Pat::read());
    t.rep.eval();
    if msr_shape(t, "Pat::read", &evs, MSR_PAT, 0, 1) {
        for i in 0..8 {
            if tab[i].bits() != bytes[i] {
                t.bad("Pat::read", "entry-i-is-not-byte-i", vec![("register", J::hex(prior)), ("index", J::U(i as u64))], &evs);
                break;
            }
        }
    }
    let mut nt = [PatMemoryType::WriteBack; 8];
    let mut nb = [0u8; 8];
    for i in 0..8 {
        nb[i] = *t.r.pick(&ENC);
        nt[i] = PatMemoryType::from_bits(nb[i]).unwrap();
    }
    let (_, evs) = trapemu::trapped(|| unsafe { Pat::write(nt) });
    t.rep.eval();
    if msr_shape(t, "Pat::write", &evs, MSR_PAT, 1, 0) && evs[0].val != u64::from_le_bytes(nb) {
        t.bad("Pat::write", "stored-wrong-table", vec![("expected", J::hex(u64::from_le_bytes(nb))), ("written", J::hex(evs[0].val))], &evs);
    }
    let (back, _) = trapemu::trapped(|| Pat::read());
    if back != nt {
        t.bad("Pat::write->read", "round-trip-differs", vec![], &[]);
    }
    t.rep.class("Pat|rw");

    // APIC base
    let of = gen::phys(&mut t.r).0 & PHYS_FRAME_BITS;
    let other = t.r.next() & !PHYS_FRAME_BITS;
    let prior = of | other;
    trapemu::regs().msr_set(MSR_APIC_BASE, prior);
    let ((f, raw), evs) = trapemu::trapped(|| ApicBase::read_raw());
    t.rep.eval();
    if msr_shape(t, "ApicBase::read_raw", &evs, MSR_APIC_BASE, 0, 1) && (f.start_address().as_u64() != of || raw != prior) {
        t.bad("ApicBase::read_raw", "wrong-frame-or-raw", vec![("register", J::hex(prior))], &evs);
    }
    let ((f, fl), evs) = trapemu::trapped(|| ApicBase::read());
    t.rep.eval();
    if msr_shape(t, "ApicBase::read", &evs, MSR_APIC_BASE, 0, 1) && (f.start_address().as_u64() != of || fl.bits() != prior & APIC_FLAGS()) {
        t.bad("ApicBase::read", "wrong-frame-or-flags", vec![("register", J::hex(prior))], &evs);
    }
    let nf = gen::phys(&mut t.r).0 & PHYS_FRAME_BITS;
    let nframe = PhysFrame::<Size4KiB>::containing_address(PhysAddr::new(nf));
    let nfl = ApicBaseFlags::from_bits_truncate(t.r.next());
    let (_, evs) = trapemu::trapped(|| unsafe { ApicBase::write(nframe, nfl) });
    t.rep.eval();
    let exp = (prior & !APIC_FLAGS() & !PHYS_FRAME_BITS) | nfl.bits() | nf;
    if msr_shape(t, "ApicBase::write", &evs, MSR_APIC_BASE, 1, 1) && evs.last().unwrap().val != exp {
        let w = evs.last().unwrap().val;
        let what = if (w ^ exp) & PHYS_FRAME_BITS != 0 { "new-base-address-is-not-the-given-frame" } else if (w ^ exp) & APIC_FLAGS() != 0 { "stored-wrong-flags" } else { "lost-or-changed-unmodelled-bits" };
        t.bad("ApicBase::write", what, vec![("prior", J::hex(prior)), ("frame", J::hex(nf)), ("flags", J::hex(nfl.bits())), ("expected", J::hex(exp)), ("written", J::hex(w))], &evs);
    }
    let (back, _) = trapemu::trapped(|| ApicBase::read());
    if back != (nframe, nfl) {
        t.bad("ApicBase::write->read", "round-trip-differs", vec![("frame", J::hex(nf)), ("read_frame", J::hex(back.0.start_address().as_u64()))], &[]);
    }
    let rawfl = t.r.next() & !PHYS_FRAME_BITS;
    let (_, evs) = trapemu::trapped(|| unsafe { ApicBase::write_raw(nframe, rawfl) });
    t.rep.eval();
    if msr_shape(t, "ApicBase::write_raw", &evs, MSR_APIC_BASE, 1, 0) && evs[0].val != nf | rawfl {
        t.bad("ApicBase::write_raw", "not-exactly-the-given-value", vec![("expected", J::hex(nf | rawfl)), ("written", J::hex(evs[0].val))], &evs);
    }
    t.rep.class(&format!("ApicBase|old-base={}|new-base={}", if of == 0 { "0" } else { "nonzero" }, if nf == 0 { "0" } else { "nonzero" }));
}

trait MsrNum {
    #[allow(non_snake_case)]
    fn MSR_NUM_CHECK() -> u32;
}
impl MsrNum for Efer {
    fn MSR_NUM_CHECK() -> u32 {
        // the crate's constant is private data inside Msr; observe it through a trapped read
        let (_, evs) = trapemu::trapped(|| Efer::read_raw());
        evs.first().map(|e| e.n).unwrap_or(0)
    }
}

fn star_tests(t: &mut T) {
    // raw
    let sysret = match t.r.below(4) {
        0 => 0,
        1 => 0xffef,
        _ => (t.r.next() as u16) & 0xfffc,
    };
    let syscall = match t.r.below(4) {
        0 => 0,
        1 => 0xfff7,
        _ => (t.r.next() as u16) & 0xfff8,
    };
    let low32 = t.r.next() & 0xffff_ffff;
    let prior = ((sysret as u64) << 48) | ((syscall as u64) << 32) | low32;
    trapemu::regs().msr_set(MSR_STAR, prior);
    let (v, evs) = trapemu::trapped(|| Star::read_raw());
    t.rep.eval();
    if msr_shape(t, "Star::read_raw", &evs, MSR_STAR, 0, 1) && v != (sysret, syscall) {
        t.bad("Star::read_raw", "wrong-fields", vec![("register", J::hex(prior))], &evs);
    }
    if sysret <= 0xffef && syscall <= 0xfff7 {
        let (res, evs) = trapemu::trapped_catch(|| Star::read());
        t.rep.eval();
        match res {
            Ok(q) => {
                if (q.0 .0, q.1 .0, q.2 .0, q.3 .0) != (sysret + 16, sysret + 8, syscall, syscall + 8) {
                    t.bad("Star::read", "wrong-selectors", vec![("register", J::hex(prior))], &evs);
                }
            }
            Err(m) => t.bad("Star::read", "panic", vec![("register", J::hex(prior)), ("panic", J::s(m))], &evs),
        }
    }
    let (a, b) = (t.r.next() as u16, t.r.next() as u16);
    let (_, evs) = trapemu::trapped(|| unsafe { Star::write_raw(a, b) });
    t.rep.eval();
    if msr_shape(t, "Star::write_raw", &evs, MSR_STAR, 1, 0) && evs[0].val != ((a as u64) << 48) | ((b as u64) << 32) {
        t.bad("Star::write_raw", "stored-wrong-value", vec![("sysret", J::hex(a as u64)), ("syscall", J::hex(b as u64)), ("written", J::hex(evs[0].val))], &evs);
    }
    // typed write: quadruples around the accepted set
    let ss_sysret: u16 = match t.r.below(5) {
        0 => 8 | 3,
        1 => 0xfff8 | 3,
        2 => (t.r.next() as u16 & 0xfff8) | (t.r.below(4) as u16),
        _ => (t.r.next() as u16 & 0xfff8) | 3,
    };
    let cs_sysret: u16 = if t.r.chance(4, 5) { ss_sysret.wrapping_add(8) } else { t.r.next() as u16 };
    let cs_syscall: u16 = match t.r.below(4) {
        0 => 0,
        1 => 0xfff0,
        2 => t.r.next() as u16,
        _ => t.r.next() as u16 & 0xfff8,
    };
    let ss_syscall: u16 = if t.r.chance(4, 5) { cs_syscall.wrapping_add(8) } else { t.r.next() as u16 };
    let acceptable = (cs_sysret as i32 - 16 == ss_sysret as i32 - 8) && (cs_syscall as i32 == ss_syscall as i32 - 8) && (ss_sysret & 3 == 3) && (ss_syscall & 3 == 0);
    trapemu::regs().msr_set(MSR_STAR, prior);
    let (res, evs) = trapemu::trapped_catch(|| Star::write(SegmentSelector(cs_sysret), SegmentSelector(ss_sysret), SegmentSelector(cs_syscall), SegmentSelector(ss_syscall)));
    t.rep.eval();
    let quad = || J::A(vec![J::hex(cs_sysret as u64), J::hex(ss_sysret as u64), J::hex(cs_syscall as u64), J::hex(ss_syscall as u64)]);
    match res {
        Ok(Ok(())) => {
            if !acceptable {
                t.bad("Star::write", "accepted-documented-invalid-selectors", vec![("selectors", quad())], &evs);
            } else if msr_shape(t, "Star::write", &evs, MSR_STAR, 1, 0) {
                let exp = (((ss_sysret.wrapping_sub(8)) as u64) << 48) | ((cs_syscall as u64) << 32);
                if evs[0].val != exp {
                    t.bad("Star::write", "stored-wrong-value", vec![("selectors", quad()), ("expected", J::hex(exp)), ("written", J::hex(evs[0].val))], &evs);
                }
                // whatever a typed write accepts is returned by the next typed read
                let (back, _) = trapemu::trapped_catch(|| Star::read());
                match back {
                    Ok(q) => {
                        if (q.0 .0, q.1 .0, q.2 .0, q.3 .0) != (cs_sysret, ss_sysret, cs_syscall, ss_syscall) {
                            t.bad("Star::write->read", "round-trip-differs", vec![("selectors", quad())], &[]);
                        }
                    }
                    Err(_) => t.bad("Star::write->read", "read-panics-after-accepted-write", vec![("selectors", quad())], &[]),
                }
            }
        }
        Ok(Err(_)) => {
            if !evs.is_empty() {
                t.bad("Star::write", "wrote-before-rejecting", vec![("selectors", quad())], &evs);
            }
            if acceptable {
                t.bad("Star::write", "rejected-valid-selectors", vec![("selectors", quad())], &evs);
            }
        }
        Err(_) => {
            // a panicking wrapper counts as a rejection: it must have written nothing
            if !evs.is_empty() {
                t.bad("Star::write", "wrote-before-panicking", vec![("selectors", quad())], &evs);
            }
        }
    }
    t.rep.class(&format!("Star|acceptable={}|ss_sysret<8={}", acceptable, ss_sysret < 8));
}

fn own_sreg(i: usize) -> u16 {
    let v: u16;
    unsafe {
        match i {
            0 => asm!("mov {0:x}, es", out(reg) v, options(nomem, nostack)),
            1 => asm!("mov {0:x}, cs", out(reg) v, options(nomem, nostack)),
            2 => asm!("mov {0:x}, ss", out(reg) v, options(nomem, nostack)),
            3 => asm!("mov {0:x}, ds", out(reg) v, options(nomem, nostack)),
            4 => asm!("mov {0:x}, fs", out(reg) v, options(nomem, nostack)),
            _ => asm!("mov {0:x}, gs", out(reg) v, options(nomem, nostack)),
        }
    }
    v
}

fn seg_tests(t: &mut T) {
    // get_reg against the CPU
    let got = [ES::get_reg().0, CS::get_reg().0, SS::get_reg().0, DS::get_reg().0, FS::get_reg().0, GS::get_reg().0];
    for i in 0..6 {
        t.rep.eval();
        if got[i] != own_sreg(i) {
            t.bad("Segment::get_reg", "differs-from-cpu", vec![("sreg", J::U(i as u64)), ("cpu", J::hex(own_sreg(i) as u64)), ("returned", J::hex(got[i] as u64))], &[]);
        }
    }
    // set_reg with selectors that are guaranteed to fault (index beyond Linux' 16-entry GDT, or an empty LDT)
    let idx = 16 + t.r.below(8192 - 16) as u16;
    let sel = if t.r.chance(1, 4) { ((t.r.below(8192) as u16) << 3) | 4 | t.r.below(4) as u16 } else { (idx << 3) | t.r.below(4) as u16 };
    macro_rules! setreg {
        ($S:ident, $n:expr) => {{
            let (_, evs) = trapemu::trapped(|| unsafe { $S::set_reg(SegmentSelector(sel)) });
            t.rep.eval();
            if evs.len() != 1 || evs[0].kind != K::MovToSreg || evs[0].n != $n || evs[0].val != sel as u64 {
                let what = if evs.len() == 1 && evs[0].kind == K::MovToSreg && evs[0].n != $n { "loaded-wrong-segment-register" } else { "wrong-selector-or-instruction" };
                t.bad(concat!(stringify!($S), "::set_reg"), what, vec![("selector", J::hex(sel as u64))], &evs);
            }
        }};
    }
    setreg!(ES, 0);
    setreg!(SS, 2);
    setreg!(DS, 3);
    setreg!(FS, 4);
    setreg!(GS, 5);
    // CS::set_reg: far return
    let marker = t.r.next();
    let (m2, evs) = trapemu::trapped(|| {
        unsafe { CS::set_reg(SegmentSelector(sel)) };
        marker
    });
    t.rep.eval();
    if evs.len() != 1 || evs[0].kind != K::Retfq || evs[0].val != sel as u64 || evs[0].width != 8 || m2 != marker {
        t.bad("CS::set_reg", "wrong-far-return", vec![("selector", J::hex(sel as u64))], &evs);
    }
    // load_tss / swapgs
    let (_, evs) = trapemu::trapped(|| unsafe { load_tss(SegmentSelector(sel)) });
    t.rep.eval();
    if evs.len() != 1 || evs[0].kind != K::Ltr || evs[0].val != sel as u64 {
        t.bad("load_tss", "wrong-selector-or-instruction", vec![("selector", J::hex(sel as u64))], &evs);
    }
    let (_, evs) = trapemu::trapped(|| unsafe { GS::swap() });
    t.rep.eval();
    if evs.len() != 1 || evs[0].kind != K::Swapgs {
        t.bad("GS::swap", "not-exactly-one-swapgs", vec![], &evs);
    }
    // bases: native instructions, checked against the CPU
    let own_fs: u64;
    let own_gs: u64;
    unsafe {
        asm!("rdfsbase {}", out(reg) own_fs, options(nomem, nostack));
        asm!("rdgsbase {}", out(reg) own_gs, options(nomem, nostack));
    }
    t.rep.eval();
    if FS::read_base().as_u64() != own_fs || GS::read_base().as_u64() != own_gs {
        t.bad("Segment64::read_base", "differs-from-cpu", vec![], &[]);
    }
    let nb = gen::canon(&mut t.r).0;
    unsafe { GS::write_base(VirtAddr::new(nb)) };
    let chk: u64;
    unsafe { asm!("rdgsbase {}", out(reg) chk, options(nomem, nostack)) };
    t.rep.eval();
    if chk != nb || GS::read_base().as_u64() != nb {
        t.bad("GS::write_base", "cpu-base-differs-from-given-address", vec![("address", J::hex(nb)), ("cpu", J::hex(chk))], &[]);
    }
    unsafe { GS::write_base(VirtAddr::new(own_gs)) };
    unsafe { FS::write_base(VirtAddr::new(own_fs)) };
    let chk: u64;
    unsafe { asm!("rdfsbase {}", out(reg) chk, options(nomem, nostack)) };
    if chk != own_fs {
        t.bad("FS::write_base", "cpu-base-differs-from-given-address", vec![], &[]);
    }
    if FS::BASE_NUM() != MSR_FS_BASE || GS::BASE_NUM() != MSR_GS_BASE {
        t.bad("Segment64::BASE", "wrong-msr-number", vec![], &[]);
    }
    t.rep.class(&format!("segments|sel-ti={}|rpl={}", (sel >> 2) & 1, sel & 3));
}

trait BaseNum {
    #[allow(non_snake_case)]
    fn BASE_NUM() -> u32;
}
impl BaseNum for FS {
    fn BASE_NUM() -> u32 {
        let (_, evs) = trapemu::trapped(|| unsafe { <FS as Segment64>::BASE.read() });
        evs.first().map(|e| e.n).unwrap_or(0)
    }
}
impl BaseNum for GS {
    fn BASE_NUM() -> u32 {
        let (_, evs) = trapemu::trapped(|| unsafe { <GS as Segment64>::BASE.read() });
        evs.first().map(|e| e.n).unwrap_or(0)
    }
}

fn own_pushfq() -> u64 {
    let v: u64;
    unsafe { asm!("pushfq", "pop {}", out(reg) v, options(nomem, preserves_flags)) };
    v
}

/// RFLAGS wrappers under single-step: every pushfq is emulated with a chosen prior value (incl. reserved bits, IF,
/// IOPL) and every popfq is intercepted, so the operand of the write is observed exactly
/// XCR0 with contents chosen by the test: xgetbv is unprivileged and would report the host's register, so these cases run
/// in single-step mode where the monitor emulates it (E4); xsetbv traps as usual.
fn xcr0_step_tests(t: &mut T) {
    // prior: any 64-bit value whose modelled part is a combination the CPU could hold, plus unmodelled / upper bits
    let modelled = XCR0_MODELLED();
    let mut low = t.r.next() & modelled;
    if !xcr0_valid(low) {
        low = 0x7;
    }
    let prior = low | (t.u64v() & !modelled) | if t.r.chance(1, 2) { 1 << 62 } else { 0 };
    let run = |f: &mut dyn FnMut() -> u64| -> (u64, Vec<Event>) {
        trapemu::regs().xgetbv_override = Some(prior);
        let r = trapemu::trapped(|| {
            trapemu::step_begin();
            let v = f();
            trapemu::step_end();
            v
        });
        trapemu::regs().xgetbv_override = None;
        r
    };
    let (v, evs) = run(&mut || XCr0::read_raw());
    t.rep.eval();
    if v != prior || evs.iter().filter(|e| e.kind == K::Xgetbv && e.n == 0).count() != 1 {
        t.bad("XCr0::read_raw(single-step)", "value-differs-from-register", vec![("register", J::hex(prior)), ("returned", J::hex(v))], &evs);
    }
    let (v, evs) = run(&mut || XCr0::read().bits());
    t.rep.eval();
    if v != prior & modelled {
        t.bad("XCr0::read(single-step)", "not-the-modelled-bits-of-raw", vec![("register", J::hex(prior)), ("returned", J::hex(v))], &evs);
    }
    // typed write preserves every bit the type does not model
    let combo = low ^ (t.r.next() & 0xe4 & modelled);
    if xcr0_valid(combo) {
        let flags = XCr0Flags::from_bits_truncate(combo);
        let (_, evs) = run(&mut || {
            unsafe { XCr0::write(flags) };
            0
        });
        t.rep.eval();
        let exp = (prior & !modelled) | combo;
        let w: Vec<&Event> = evs.iter().filter(|e| e.kind == K::Xsetbv).collect();
        if w.len() != 1 || w[0].n != 0 || w[0].val != exp {
            t.bad("XCr0::write(single-step)", "unmodelled-bits-not-preserved-or-flags-not-stored", vec![("prior", J::hex(prior)), ("flags", J::hex(combo)), ("expected", J::hex(exp)), ("written", w.first().map(|e| J::hex(e.val)).unwrap_or(J::Null))], &evs);
        }
    }
    // update = read-modify-write
    let (_, evs) = run(&mut || {
        unsafe { XCr0::update(|f| f.insert(XCr0Flags::X87)) };
        0
    });
    t.rep.eval();
    let w: Vec<&Event> = evs.iter().filter(|e| e.kind == K::Xsetbv).collect();
    if w.len() != 1 || w[0].val != prior | 1 {
        t.bad("XCr0::update(single-step)", "not-read-modify-write", vec![("prior", J::hex(prior)), ("expected", J::hex(prior | 1)), ("written", w.first().map(|e| J::hex(e.val)).unwrap_or(J::Null))], &evs);
    }
    t.rep.class(&format!("XCr0|single-step|upper-bits={}|bit62={}", prior >> 32 != 0, (prior >> 62) & 1));
}

fn flags_step_tests(t: &mut T) {
    let all = RFlags::all().bits();
    let prior = (t.u64v() & 0xffff_ffff) | 2;
    let arg = RFlags::from_bits_truncate(t.r.next());
    let regs = trapemu::regs();
    regs.capture_popfq = true;
    regs.rflags_override = Some(prior);
    x86_64::verif_hooks::RFLAGS_IF_OVERLAY.store(0, core::sync::atomic::Ordering::Relaxed);
    let run = |f: &dyn Fn() -> u64| -> (u64, Vec<Event>) {
        trapemu::regs().rflags_override = Some(prior);
        trapemu::trapped(|| {
            trapemu::step_begin();
            let v = f();
            trapemu::step_end();
            v
        })
    };
    // read_raw / read
    let (v, evs) = run(&|| rflags::read_raw());
    t.rep.eval();
    if v != prior || evs.iter().filter(|e| e.kind == K::Pushfq).count() != 1 || evs.iter().any(|e| e.kind == K::Popfq) {
        t.bad("rflags::read_raw(single-step)", "value-differs-from-register", vec![("register", J::hex(prior)), ("returned", J::hex(v))], &evs);
    }
    let (v, evs) = run(&|| rflags::read().bits());
    t.rep.eval();
    if v != prior & all {
        t.bad("rflags::read(single-step)", "not-the-modelled-bits-of-raw", vec![("register", J::hex(prior)), ("returned", J::hex(v))], &evs);
    }
    // write: preserves the bits RFlags does not define
    let (_, evs) = run(&|| {
        unsafe { rflags::write(arg) };
        0
    });
    t.rep.eval();
    let pops: Vec<&Event> = evs.iter().filter(|e| e.kind == K::Popfq).collect();
    let exp = (prior & !all) | arg.bits();
    if pops.len() != 1 || pops[0].val != exp {
        let what = if pops.len() != 1 { "not-exactly-one-popfq" } else if (pops[0].val ^ exp) & !all != 0 { "lost-or-changed-unmodelled-bits" } else { "stored-wrong-flags" };
        t.bad("rflags::write(single-step)", what, vec![("prior", J::hex(prior)), ("flags", J::hex(arg.bits())), ("expected", J::hex(exp)), ("written", pops.first().map(|e| J::hex(e.val)).unwrap_or(J::Null))], &evs);
    }
    // write_raw: exact
    let rawv = t.u64v() & 0xffff_ffff;
    let (_, evs) = run(&|| {
        unsafe { rflags::write_raw(rawv) };
        0
    });
    t.rep.eval();
    let pops: Vec<&Event> = evs.iter().filter(|e| e.kind == K::Popfq).collect();
    if pops.len() != 1 || pops[0].val != rawv || evs.iter().any(|e| e.kind == K::Pushfq) {
        t.bad("rflags::write_raw(single-step)", "not-exactly-the-given-value", vec![("value", J::hex(rawv))], &evs);
    }
    // update = read-modify-write
    let tog = RFlags::from_bits_truncate(t.r.next());
    let (_, evs) = run(&|| {
        unsafe { rflags::update(|f| f.toggle(tog)) };
        0
    });
    t.rep.eval();
    let pops: Vec<&Event> = evs.iter().filter(|e| e.kind == K::Popfq).collect();
    let exp = (prior & !all) | ((prior & all) ^ tog.bits());
    if pops.len() != 1 || pops[0].val != exp {
        t.bad("rflags::update(single-step)", "not-read-modify-write", vec![("prior", J::hex(prior)), ("toggle", J::hex(tog.bits())), ("expected", J::hex(exp)), ("written", pops.first().map(|e| J::hex(e.val)).unwrap_or(J::Null))], &evs);
    }
    // write -> read round trip
    let (v, _) = run(&|| {
        unsafe { rflags::write(arg) };
        rflags::read().bits()
    });
    if v != arg.bits() {
        t.bad("rflags::write->read(single-step)", "round-trip-differs", vec![("written", J::hex(arg.bits())), ("read", J::hex(v))], &[]);
    }
    let regs = trapemu::regs();
    regs.capture_popfq = false;
    regs.rflags_override = None;
    t.rep.class(&format!("rflags|single-step|prior-unmodelled={}|if={}|iopl={}", prior & !all != 0, (prior >> 9) & 1, (prior >> 12) & 3));
}

fn flags_tests(t: &mut T) {
    const STABLE: u64 = !(0x1 | 0x4 | 0x10 | 0x40 | 0x80 | 0x800); // everything but the arithmetic status flags
    x86_64::verif_hooks::RFLAGS_IF_OVERLAY.store(0, core::sync::atomic::Ordering::Relaxed);
    t.rep.eval();
    let own = own_pushfq();
    let raw = rflags::read_raw();
    if raw & STABLE != own & STABLE {
        t.bad("rflags::read_raw", "differs-from-cpu", vec![("cpu", J::hex(own)), ("returned", J::hex(raw))], &[]);
    }
    if rflags::read().bits() & STABLE != own & STABLE & RFLAGS_MODELLED() {
        t.bad("rflags::read", "not-the-modelled-bits-of-raw", vec![], &[]);
    }
    // the ID flag (bit 21) is user-modifiable and not touched by ordinary code: write it through the wrapper, read it with the CPU
    for want in [true, false, true, false] {
        t.rep.eval();
        let mut f = rflags::read();
        f.set(RFlags::ID, want);
        // keep the status flags benign
        unsafe { rflags::write(f) };
        let now = own_pushfq();
        if (now >> 21) & 1 != want as u64 || now & 2 == 0 || (now & 0x200) == 0 {
            t.bad("rflags::write", "cpu-flags-differ-from-requested", vec![("want_id", J::Bool(want)), ("cpu", J::hex(now))], &[]);
        }
        let cur = own_pushfq();
        unsafe { rflags::write_raw(cur ^ (1 << 21)) };
        let now = own_pushfq();
        if (now >> 21) & 1 == want as u64 {
            t.bad("rflags::write_raw", "cpu-flags-differ-from-requested", vec![("cpu", J::hex(now))], &[]);
        }
        unsafe { rflags::update(|f| f.set(RFlags::ID, false)) };
        if (own_pushfq() >> 21) & 1 != 0 {
            t.bad("rflags::update", "not-read-modify-write", vec![], &[]);
        }
    }
    // MXCSR (native): keep all exception masks set so no SIGFPE can be raised
    let mut own: u32 = 0;
    unsafe { asm!("stmxcsr [{}]", in(reg) &mut own, options(nostack)) };
    t.rep.eval();
    if mxcsr::read().bits() != own & 0xffff {
        t.bad("mxcsr::read", "differs-from-cpu", vec![("cpu", J::hex(own as u64))], &[]);
    }
    let v = (t.r.next() as u32 & 0xffff) | 0x1f80;
    mxcsr::write(MxCsr::from_bits_truncate(v));
    let mut chk: u32 = 0;
    unsafe { asm!("stmxcsr [{}]", in(reg) &mut chk, options(nostack)) };
    t.rep.eval();
    if chk != v {
        t.bad("mxcsr::write", "cpu-value-differs-from-given", vec![("given", J::hex(v as u64)), ("cpu", J::hex(chk as u64))], &[]);
    }
    mxcsr::update(|m| m.toggle(MxCsr::FLUSH_TO_ZERO));
    unsafe { asm!("stmxcsr [{}]", in(reg) &mut chk, options(nostack)) };
    if chk != v ^ 0x8000 {
        t.bad("mxcsr::update", "not-read-modify-write", vec![], &[]);
    }
    mxcsr::write(MxCsr::from_bits_truncate(own));
    t.rep.class(&format!("mxcsr|rc={}|ftz={}|daz={}", (v >> 13) & 3, (v >> 15) & 1, (v >> 6) & 1));
    t.rep.class("rflags|id-flag");
}

/// The wrappers whose asm uses the stack (`push`/`pop` around popfq, pushfq, the far return of CS::set_reg) must not
/// write below the caller's stack pointer: small leaf functions keep N words of live data in their frame (on this target
/// possibly in the red zone), call the wrapper in the middle, and sum the data up again.
macro_rules! leaf_with_locals {
    ($name:ident, $n:expr, |$aux:ident| $body:expr) => {
        #[inline(never)]
        fn $name(seed: u64, $aux: u64) -> u64 {
            let _ = $aux;
            let mut table = [0u64; $n];
            for (i, slot) in table.iter_mut().enumerate() {
                unsafe { core::ptr::write_volatile(slot, seed.wrapping_mul(i as u64 + 1)) };
            }
            $body;
            let mut sum = 0u64;
            for slot in table.iter() {
                sum = sum.wrapping_add(unsafe { core::ptr::read_volatile(slot) });
            }
            sum
        }
    };
}
leaf_with_locals!(leaf_wr_1, 1, |aux| unsafe { rflags::write_raw(aux) });
leaf_with_locals!(leaf_wr_2, 2, |aux| unsafe { rflags::write_raw(aux) });
leaf_with_locals!(leaf_wr_4, 4, |aux| unsafe { rflags::write_raw(aux) });
leaf_with_locals!(leaf_wr_9, 9, |aux| unsafe { rflags::write_raw(aux) });
leaf_with_locals!(leaf_w_3, 3, |aux| unsafe { rflags::write(RFlags::from_bits_truncate(aux)) });
leaf_with_locals!(leaf_w_8, 8, |aux| unsafe { rflags::write(RFlags::from_bits_truncate(aux)) });
leaf_with_locals!(leaf_cs_1, 1, |aux| unsafe { CS::set_reg(CS::get_reg()) });
leaf_with_locals!(leaf_cs_2, 2, |aux| unsafe { CS::set_reg(CS::get_reg()) });
leaf_with_locals!(leaf_cs_4, 4, |aux| unsafe { CS::set_reg(CS::get_reg()) });
leaf_with_locals!(leaf_cs_8, 8, |aux| unsafe { CS::set_reg(CS::get_reg()) });
leaf_with_locals!(leaf_cs_16, 16, |aux| unsafe { CS::set_reg(CS::get_reg()) });

use crate::util::{pressure_expected, under_register_pressure};

fn register_pressure(t: &mut T) {
    macro_rules! case {
        ($name:expr, $body:expr) => {{
            t.rep.eval();
            let seed = t.r.next() | 1;
            let ((sum, _), _evs) = trapemu::trapped(|| under_register_pressure(seed, || $body));
            if sum != pressure_expected(seed) {
                t.rep.violation(&format!("{}|changes-a-register-it-does-not-declare", $name), J::obj(vec![("profile", J::s(crate::util::profile_name())), ("expected", J::hex(pressure_expected(seed))), ("got", J::hex(sum))]));
            }
            t.rep.class(&format!("register-pressure|{}", $name));
        }};
    }
    let v = t.r.next();
    case!("Cr0::read_raw", Cr0::read_raw());
    case!("Cr2::read_raw", Cr2::read_raw());
    case!("Cr3::read_raw", Cr3::read_raw());
    case!("Cr4::read_raw", Cr4::read_raw());
    case!("Cr0::write_raw", unsafe { Cr0::write_raw(v) });
    case!("Cr4::write_raw", unsafe { Cr4::write_raw(v) });
    case!("Dr0::read", Dr0::read());
    case!("Dr6::read_raw", Dr6::read_raw());
    case!("Dr7::read_raw", Dr7::read_raw());
    case!("Dr3::write", Dr3::write(v));
    case!("XCr0::read_raw", XCr0::read_raw());
    case!("XCr0::write_raw", unsafe { XCr0::write_raw(v) });
    case!("Msr::read", unsafe { Msr::new(v as u32).read() });
    case!("Msr::write", unsafe { Msr::new(v as u32).write(v.rotate_left(17)) });
    case!("Efer::read_raw", Efer::read_raw());
    case!("LStar::read", LStar::read());
    case!("Star::read_raw", Star::read_raw());
    case!("CS::get_reg", CS::get_reg());
    case!("SS::get_reg", SS::get_reg());
    case!("GS::get_reg", GS::get_reg());
    case!("DS::set_reg", unsafe { DS::set_reg(SegmentSelector(v as u16)) });
    case!("CS::set_reg", unsafe { CS::set_reg(CS::get_reg()) });
    case!("GS::swap", unsafe { GS::swap() });
    case!("load_tss", unsafe { load_tss(SegmentSelector(v as u16)) });
    case!("rflags::read_raw", rflags::read_raw());
}

/// `ltr` writes memory: it marks the TSS descriptor busy in the GDT. Code around `load_tss` that reads the descriptor before
/// and after (plain reads, same function) sees the change - the asm block may not be declared read-only.
/// (the table is reached through a raw pointer: memory behind a `&mut` parameter is, by Rust's aliasing rules, out of
/// reach for an asm block that was not given the pointer, so forwarding would be legitimate there)
#[inline(never)]
fn descriptor_around_load_tss(tbl: *mut u64, sel: u16) -> (u64, u64) {
    let idx = (sel >> 3) as usize;
    let before = unsafe { *tbl.add(idx) };
    unsafe { load_tss(SegmentSelector(sel)) };
    let after = unsafe { *tbl.add(idx) };
    (before, after)
}

fn load_tss_marks_busy(t: &mut T) {
    let mut tbl: [u64; 8] = [0, 0x00af_9b00_0000_ffff, 0x00cf_9300_0000_ffff, 0, 0, 0, 0, 0];
    let idx = 3 + t.r.below(3) as usize;
    let base = t.r.next() & 0xffff_ffff;
    // available 64-bit TSS descriptor (type 0x9), present, limit 0x67
    tbl[idx] = 0x0000_8900_0000_0067 | ((base & 0xff_ffff) << 16) | ((base >> 24) << 56);
    let regs = trapemu::regs();
    let saved = regs.gdtr;
    regs.gdtr = (8 * 8 - 1, tbl.as_ptr() as u64);
    regs.emulate_ltr_busy = true;
    let sel = (idx as u16) << 3;
    let ((before, after), evs) = trapemu::trapped(|| descriptor_around_load_tss(tbl.as_mut_ptr(), sel));
    let regs = trapemu::regs();
    regs.emulate_ltr_busy = false;
    regs.gdtr = saved;
    t.rep.eval();
    let in_memory = unsafe { core::ptr::read_volatile(&tbl[idx]) };
    if evs.len() != 1 || evs[0].kind != K::Ltr || in_memory != before | (1 << 41) || after != in_memory {
        t.bad("load_tss", "descriptor-read-after-it-does-not-show-the-busy-bit-ltr-set", vec![("profile", J::s(crate::util::profile_name())), ("read_before", J::hex(before)), ("read_after", J::hex(after)), ("in_memory", J::hex(in_memory))], &evs);
    }
    t.rep.class("load_tss|busy-bit-visible-to-surrounding-code");
}

fn callers_locals(t: &mut T) {
    let fns: [(&str, usize, fn(u64, u64) -> u64); 11] = [
        ("rflags::write_raw", 1, leaf_wr_1), ("rflags::write_raw", 2, leaf_wr_2), ("rflags::write_raw", 4, leaf_wr_4), ("rflags::write_raw", 9, leaf_wr_9),
        ("rflags::write", 3, leaf_w_3), ("rflags::write", 8, leaf_w_8),
        ("CS::set_reg", 1, leaf_cs_1), ("CS::set_reg", 2, leaf_cs_2), ("CS::set_reg", 4, leaf_cs_4), ("CS::set_reg", 8, leaf_cs_8), ("CS::set_reg", 16, leaf_cs_16),
    ];
    // executed natively: writing back the flags just read and reloading the current code segment are legal in user mode
    for (what, n, f) in fns {
        t.rep.eval();
        let seed = core::hint::black_box(t.r.next());
        let cur = rflags::read_raw();
        let sum = f(seed, cur);
        let exp = (1..=n as u64).fold(0u64, |a, i| a.wrapping_add(seed.wrapping_mul(i)));
        if sum != exp {
            t.rep.violation(&format!("{}|clobbers-its-callers-stack-locals", what), J::obj(vec![("profile", J::s(crate::util::profile_name())), ("words_of_live_data", J::U(n as u64)), ("expected_sum", J::hex(exp)), ("got", J::hex(sum))]));
        }
        t.rep.class(&format!("callers-locals|{}|{}-words", what, n));
    }
}

pub fn run(a: &Args, rep: &mut Report) {
    trapemu::install();
    let r = Rng::derive(a.seed, "c16", a.shard);
    let mut t = T { rep, r };
    let n = a.budget(12_000, 1_500_000);
    for i in 0..n {
        cr_tests(&mut t);
        cr3_tests(&mut t);
        dr_tests(&mut t);
        xcr0_tests(&mut t);
        msr_tests(&mut t);
        seg_tests(&mut t);
        if i % 1024 == 0 {
            callers_locals(&mut t);
        }
        if i % 256 == 0 {
            register_pressure(&mut t);
            load_tss_marks_busy(&mut t);
        }
        if i % 16 == 0 {
            flags_tests(&mut t);
            flags_step_tests(&mut t);
            xcr0_step_tests(&mut t);
        }
        if i < 2 {
            let evs = trapemu::events();
            t.rep.sample(J::obj(vec![("last_wrapper_events", evj(&evs)), ("cr", J::A(trapemu::regs().cr.iter().take(5).map(|&v| J::hex(v)).collect()))]));
        }
    }
    t.rep.count("traps", trapemu::TRAPS.load(core::sync::atomic::Ordering::Relaxed));
    if trapemu::overflowed() {
        t.rep.inconclusive = Some("event log overflow".into());
    }
}
