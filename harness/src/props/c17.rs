//! C17 — without_interrupts restores the interrupt flag; enable_and_hlt is atomic.
//! Oracle (E4 + hook H1): emulated IF is set/cleared by trapped sti/cli and mirrored into the cfg-gated
//! RFLAGS overlay so `are_enabled()` (pushfq, untrappable) sees it.

use crate::trapemu::{self, Event, K};
use crate::util::{Args, Report, Rng, J};
use core::sync::atomic::Ordering;
use x86_64::instructions::interrupts;

fn evs_json(evs: &[Event]) -> J {
    J::A(evs.iter().take(12).map(|e| J::s(trapemu::fmt_event(e))).collect())
}

static STEPPED: core::sync::atomic::AtomicU64 = core::sync::atomic::AtomicU64::new(0);
static PUSHFQS: core::sync::atomic::AtomicU64 = core::sync::atomic::AtomicU64::new(0);

struct Tree {
    kids: Vec<Tree>,
    id: u64,
}

fn gen_tree(r: &mut Rng, depth: u32, budget: &mut u32, next_id: &mut u64) -> Tree {
    let id = *next_id;
    *next_id += 1;
    let mut kids = Vec::new();
    if depth > 0 && *budget > 0 {
        let n = r.below(4);
        for _ in 0..n {
            if *budget == 0 {
                break;
            }
            *budget -= 1;
            kids.push(gen_tree(r, depth - 1, budget, next_id));
        }
    }
    Tree { kids, id }
}

struct Obs {
    bodies_run: u64,
    saw_if_set_inside: u64,
    are_enabled_wrong_inside: u64,
    flag_not_restored: u64,
    result_wrong: u64,
    nodes: u64,
    max_depth: u32,
}

/// run the nesting tree through the real without_interrupts
fn run_tree(t: &Tree, depth: u32, o: &mut Obs) -> u64 {
    let before = trapemu::regs().iflag;
    let expected = t.id.wrapping_mul(0x9e37_79b9_7f4a_7c15) ^ 0x5555;
    let mut ran = 0u32;
    let got = interrupts::without_interrupts(|| {
        ran += 1;
        o.bodies_run += 1;
        o.nodes += 1;
        o.max_depth = o.max_depth.max(depth);
        if trapemu::regs().iflag {
            o.saw_if_set_inside += 1;
        }
        if interrupts::are_enabled() {
            o.are_enabled_wrong_inside += 1;
        }
        // a body may change other RFLAGS bits (clac inside a stac region, cld, toggling ID ...) - just not IF. In single-step
        // mode the emulated pushfq reports `pushfq_or`; some bodies clear part of it
        if t.id & 3 == 1 {
            let regs = trapemu::regs();
            regs.pushfq_or &= !(t.id >> 2) | 0x200;
        }
        // a nested call whose closure panics (caught here, inside the enclosing body) leaves the flag as it found it too
        if t.id & 7 == 6 {
            let before_inner = trapemu::regs().iflag;
            let r = crate::util::catch(|| interrupts::without_interrupts(|| -> u64 { panic!("closure gives up") }));
            if r.is_ok() || trapemu::regs().iflag != before_inner {
                o.flag_not_restored += 1;
            }
        }
        for k in t.kids.iter() {
            run_tree(k, depth + 1, o);
            // a nested call must leave the flag clear for the rest of the enclosing body
            if trapemu::regs().iflag {
                o.saw_if_set_inside += 1;
            }
        }
        expected
    });
    if ran != 1 {
        o.bodies_run += 1000; // flagged by the count check below
    }
    if got != expected {
        o.result_wrong += 1;
    }
    if trapemu::regs().iflag != before {
        o.flag_not_restored += 1;
    }
    got
}

fn count_nodes(t: &Tree) -> u64 {
    1 + t.kids.iter().map(count_nodes).sum::<u64>()
}

fn tree_case(rep: &mut Report, r: &mut Rng, initial_if: bool, maxdepth: u32, maxnodes: u32, step_mode: bool) {
    rep.eval();
    let mut budget = maxnodes;
    let mut next_id = r.next() >> 8;
    let t = gen_tree(r, maxdepth, &mut budget, &mut next_id);
    let nodes = count_nodes(&t);
    let regs = trapemu::regs();
    // two ways to let the code under test see the emulated flag: the cfg-gated overlay applied after the real
    // pushfq (hook H1), or - without any hook - single-stepping and emulating every pushfq itself
    regs.mirror_if = !step_mode;
    // in single-step mode a popfq inside the call is intercepted and recorded (in ring 0 it would rewrite IF; here it
    // would load the emulated "other bits" into the real RFLAGS)
    regs.capture_popfq = step_mode;
    if step_mode {
        x86_64::verif_hooks::RFLAGS_IF_OVERLAY.store(0, Ordering::Relaxed);
    }
    regs.set_if(initial_if);
    // the rest of RFLAGS is part of the initial state too: VIF/VIP/AC/ID/IOPL/NT as any kernel context may have them
    let other: u64 = if step_mode && r.chance(2, 3) { r.next() & ((1 << 19) | (1 << 20) | (1 << 18) | (1 << 21) | (3 << 12) | (1 << 14)) } else { 0 };
    regs.pushfq_or = other;
    let mut o = Obs { bodies_run: 0, saw_if_set_inside: 0, are_enabled_wrong_inside: 0, flag_not_restored: 0, result_wrong: 0, nodes: 0, max_depth: 0 };
    let (_, evs_all) = trapemu::trapped(|| {
        if step_mode {
            trapemu::step_begin();
        }
        let v = run_tree(&t, 0, &mut o);
        if step_mode {
            let n = trapemu::step_end();
            STEPPED.fetch_add(n, Ordering::Relaxed);
        }
        v
    });
    trapemu::regs().pushfq_or = 0;
    trapemu::regs().capture_popfq = false;
    trapemu::regs().rflags_override = None;
    let pushfqs = evs_all.iter().filter(|e| e.kind == K::Pushfq).count();
    PUSHFQS.fetch_add(pushfqs as u64, Ordering::Relaxed);
    let evs: Vec<Event> = evs_all.into_iter().filter(|e| e.kind != K::Pushfq).collect();
    let after = trapemu::regs().iflag;
    let ctx = |evs: &[Event]| J::obj(vec![("initial_if", J::Bool(initial_if)), ("other_rflags_bits", J::hex(other)), ("nodes", J::U(nodes)), ("depth", J::U(o.max_depth as u64)), ("final_if", J::Bool(after)), ("events", evs_json(evs)), ("n_events", J::U(evs.len() as u64))]);
    let ifs = match (initial_if, step_mode) {
        (true, false) => "IF=1",
        (false, false) => "IF=0",
        (true, true) => "IF=1|single-step",
        (false, true) => "IF=0|single-step",
    };
    if step_mode && pushfqs == 0 {
        rep.violation("without_interrupts|single-step|no-pushfq-observed(flag-never-read)", ctx(&evs));
    }
    if o.bodies_run != nodes {
        rep.violation(&format!("without_interrupts|{}|closure-not-run-exactly-once", ifs), ctx(&evs));
    }
    if o.saw_if_set_inside != 0 {
        rep.violation(&format!("without_interrupts|{}|closure-ran-with-interrupts-enabled", ifs), ctx(&evs));
    }
    if o.are_enabled_wrong_inside != 0 {
        rep.violation(&format!("are_enabled|{}|reported-enabled-inside-without_interrupts", ifs), ctx(&evs));
    }
    if o.flag_not_restored != 0 || after != initial_if {
        rep.violation(&format!("without_interrupts|{}|flag-not-restored", ifs), ctx(&evs));
    }
    if o.result_wrong != 0 {
        rep.violation(&format!("without_interrupts|{}|result-not-passed-through", ifs), ctx(&evs));
    }
    // event grammar: exactly `cli ... sti` around the outermost call when IF was 1; nothing when IF was 0
    let kinds: Vec<K> = evs.iter().map(|e| e.kind).collect();
    let ok = if initial_if { kinds == vec![K::Cli, K::Sti] } else { kinds.is_empty() };
    if !ok {
        rep.violation(&format!("without_interrupts|{}|unexpected-instruction-sequence", ifs), ctx(&evs));
    }
    if step_mode {
        rep.class(&format!("tree|{}|VIF={}|other-bits={}", ifs, (other >> 19) & 1, if other & !(1 << 19) != 0 { "some" } else { "none" }));
    }
    rep.class(&format!("tree|{}|depth={}|nodes={}", ifs, o.max_depth, match nodes { 1 => "1", 2..=4 => "2-4", 5..=20 => "5-20", _ => "21+" }));
    if rep.want_sample() {
        rep.sample(ctx(&evs));
    }
}

fn simple_cases(rep: &mut Report, initial_if: bool) {
    let regs = trapemu::regs();
    regs.mirror_if = true;
    let ifs = if initial_if { "IF=1" } else { "IF=0" };
    // snapshot of the rest of the register file to show "changes nothing else"
    let snap = |r: &trapemu::Regs| (r.cr, r.dr, r.xcr0, r.sreg, r.gdtr, r.idtr, r.tr, r.msr_used);
    // enable
    regs.set_if(initial_if);
    let s0 = snap(trapemu::regs());
    let (_, evs) = trapemu::trapped(|| interrupts::enable());
    rep.eval();
    if evs.len() != 1 || evs[0].kind != K::Sti || !trapemu::regs().iflag || snap(trapemu::regs()) != s0 {
        rep.violation(&format!("enable|{}|not-exactly-one-sti", ifs), evs_json(&evs));
    }
    if !interrupts::are_enabled() {
        rep.violation(&format!("are_enabled|{}|false-after-enable", ifs), J::Null);
    }
    // disable
    trapemu::regs().set_if(initial_if);
    let (_, evs) = trapemu::trapped(|| interrupts::disable());
    rep.eval();
    if evs.len() != 1 || evs[0].kind != K::Cli || trapemu::regs().iflag || snap(trapemu::regs()) != s0 {
        rep.violation(&format!("disable|{}|not-exactly-one-cli", ifs), evs_json(&evs));
    }
    if interrupts::are_enabled() {
        rep.violation(&format!("are_enabled|{}|true-after-disable", ifs), J::Null);
    }
    // are_enabled reports the flag and executes nothing privileged
    trapemu::regs().set_if(initial_if);
    let (b, evs) = trapemu::trapped(|| interrupts::are_enabled());
    rep.eval();
    if b != initial_if || !evs.is_empty() {
        rep.violation(&format!("are_enabled|{}|wrong", ifs), evs_json(&evs));
    }
    // enable_and_hlt: sti immediately followed by hlt
    trapemu::regs().set_if(initial_if);
    let (_, evs) = trapemu::trapped(|| interrupts::enable_and_hlt());
    rep.eval();
    let ok = evs.len() == 2 && evs[0].kind == K::Sti && evs[1].kind == K::Hlt && evs[0].next == 0xf4 && evs[1].rip == evs[0].rip + evs[0].len as u64 && trapemu::regs().iflag;
    if !ok {
        let kind = if evs.len() >= 1 && evs[0].kind == K::Sti && evs[0].next != 0xf4 { "instruction-between-sti-and-hlt" } else { "not-sti-hlt" };
        rep.violation(&format!("enable_and_hlt|{}|{}", ifs, kind), evs_json(&evs));
    }
    rep.class(&format!("simple|{}", ifs));
}

/// Reading the flag "changes nothing else" - including the caller's stack: small leaf functions keep N words of live data in
/// their frame (on this target possibly in the red zone below RSP), read the flag in the middle, and sum the data up again.
macro_rules! leaf_with_locals {
    ($name:ident, $n:expr, $read:expr) => {
        #[inline(never)]
        fn $name(seed: u64) -> (u64, u64) {
            let mut table = [0u64; $n];
            for (i, slot) in table.iter_mut().enumerate() {
                unsafe { core::ptr::write_volatile(slot, seed.wrapping_mul(i as u64 + 1)) };
            }
            let seen: u64 = $read;
            let mut sum = 0u64;
            for slot in table.iter() {
                sum = sum.wrapping_add(unsafe { core::ptr::read_volatile(slot) });
            }
            (sum, seen)
        }
    };
}
leaf_with_locals!(leaf_ae_1, 1, interrupts::are_enabled() as u64);
leaf_with_locals!(leaf_ae_2, 2, interrupts::are_enabled() as u64);
leaf_with_locals!(leaf_ae_3, 3, interrupts::are_enabled() as u64);
leaf_with_locals!(leaf_ae_4, 4, interrupts::are_enabled() as u64);
leaf_with_locals!(leaf_ae_8, 8, interrupts::are_enabled() as u64);
leaf_with_locals!(leaf_ae_15, 15, interrupts::are_enabled() as u64);
leaf_with_locals!(leaf_raw_1, 1, x86_64::registers::rflags::read_raw());
leaf_with_locals!(leaf_raw_2, 2, x86_64::registers::rflags::read_raw());
leaf_with_locals!(leaf_raw_4, 4, x86_64::registers::rflags::read_raw());
leaf_with_locals!(leaf_raw_8, 8, x86_64::registers::rflags::read_raw());
leaf_with_locals!(leaf_raw_16, 16, x86_64::registers::rflags::read_raw());
leaf_with_locals!(leaf_typed_8, 8, x86_64::registers::rflags::read().bits());
leaf_with_locals!(leaf_wi_8, 8, interrupts::without_interrupts(|| 5u64));
leaf_with_locals!(leaf_wi_3, 3, interrupts::without_interrupts(|| 5u64));

static SEEN_IF_INSIDE: core::sync::atomic::AtomicU8 = core::sync::atomic::AtomicU8::new(9);
fn probe_fn_item() -> u64 {
    SEEN_IF_INSIDE.store(trapemu::regs().iflag as u8, Ordering::Relaxed);
    0x1234_5678
}

/// callables that capture nothing (a `fn` item, a closure touching only statics) are callables like any other: they run
/// with the flag clear, between cli and sti when it was set
fn zero_sized_callables(rep: &mut Report, initial_if: bool) {
    let regs = trapemu::regs();
    regs.mirror_if = true;
    for which in ["fn-item", "non-capturing-closure"] {
        regs.set_if(initial_if);
        SEEN_IF_INSIDE.store(9, Ordering::Relaxed);
        let (got, evs) = trapemu::trapped(|| {
            if which == "fn-item" {
                interrupts::without_interrupts(probe_fn_item)
            } else {
                interrupts::without_interrupts(|| {
                    SEEN_IF_INSIDE.store(trapemu::regs().iflag as u8, Ordering::Relaxed);
                    0x1234_5678u64
                })
            }
        });
        rep.eval();
        let seen = SEEN_IF_INSIDE.load(Ordering::Relaxed);
        let kinds: Vec<K> = evs.iter().map(|e| e.kind).collect();
        let ok_events = if initial_if { kinds == vec![K::Cli, K::Sti] } else { kinds.is_empty() };
        if got != 0x1234_5678 || seen != 0 || !ok_events || trapemu::regs().iflag != initial_if {
            let what = if seen == 1 { "closure-ran-with-interrupts-enabled" } else if seen == 9 { "closure-not-run" } else if !ok_events { "unexpected-instruction-sequence" } else { "flag-or-result-wrong" };
            rep.violation(&format!("without_interrupts|{}|IF={}|{}", which, initial_if as u8, what), J::obj(vec![("events", evs_json(&evs)), ("flag_seen_inside", J::U(seen as u64)), ("profile", J::s(crate::util::profile_name()))]));
        }
        rep.class(&format!("zero-sized-callable|{}|IF={}", which, initial_if as u8));
    }
}

fn callers_locals(rep: &mut Report, r: &mut Rng) {
    let fns: [(&str, usize, fn(u64) -> (u64, u64)); 14] = [
        ("are_enabled", 1, leaf_ae_1), ("are_enabled", 2, leaf_ae_2), ("are_enabled", 3, leaf_ae_3), ("are_enabled", 4, leaf_ae_4), ("are_enabled", 8, leaf_ae_8), ("are_enabled", 15, leaf_ae_15),
        ("rflags::read_raw", 1, leaf_raw_1), ("rflags::read_raw", 2, leaf_raw_2), ("rflags::read_raw", 4, leaf_raw_4), ("rflags::read_raw", 8, leaf_raw_8), ("rflags::read_raw", 16, leaf_raw_16),
        ("rflags::read", 8, leaf_typed_8), ("without_interrupts", 8, leaf_wi_8), ("without_interrupts", 3, leaf_wi_3),
    ];
    let regs = trapemu::regs();
    regs.mirror_if = true;
    for (what, n, f) in fns {
        for _ in 0..4 {
            rep.eval();
            regs.set_if(r.chance(1, 2));
            let seed = core::hint::black_box(r.next());
            let ((sum, _seen), _evs) = trapemu::trapped(|| f(seed));
            let exp = (1..=n as u64).fold(0u64, |a, i| a.wrapping_add(seed.wrapping_mul(i)));
            if sum != exp {
                rep.violation(&format!("{}|clobbers-its-callers-stack-locals", what), J::obj(vec![("profile", J::s(crate::util::profile_name())), ("words_of_live_data", J::U(n as u64)), ("expected_sum", J::hex(exp)), ("got", J::hex(sum))]));
            }
        }
        rep.class(&format!("callers-locals|{}|{}-words", what, n));
    }
}

pub fn run(a: &Args, rep: &mut Report) {
    trapemu::install();
    let mut r = Rng::derive(a.seed, "c17", a.shard);
    for &i in [true, false].iter() {
        for _ in 0..50 {
            simple_cases(rep, i);
        }
        zero_sized_callables(rep, i);
    }
    callers_locals(rep, &mut r);
    let n = a.budget(4_000, 2_000_000);
    for k in 0..n {
        let initial = r.chance(1, 2);
        let (d, m) = match k % 50 {
            0 => (12, 10_000),
            1..=5 => (8, 400),
            _ => (1 + r.below(6) as u32, 1 + r.below(40) as u32),
        };
        tree_case(rep, &mut r, initial, d, m, false);
    }
    // single-step mode: real pushfq emulation, no hook involved (small trees: every instruction traps)
    let n = a.budget(300, 4_000);
    for _ in 0..n {
        let initial = r.chance(2, 3);
        let (d, m) = (1 + r.below(4) as u32, 1 + r.below(12) as u32);
        tree_case(rep, &mut r, initial, d, m, true);
    }
    rep.count("single_stepped_instructions", STEPPED.load(Ordering::Relaxed));
    rep.count("pushfq_emulated", PUSHFQS.load(Ordering::Relaxed));
    // overlay off again so nothing else in the process is affected
    trapemu::regs().mirror_if = false;
    x86_64::verif_hooks::RFLAGS_IF_OVERLAY.store(0, Ordering::Relaxed);
    rep.count("traps", trapemu::TRAPS.load(Ordering::Relaxed));
}
