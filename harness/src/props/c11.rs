//! C11 — mapping changes name the page to flush, and flushes invalidate exactly that.
//! Oracle: (a) token page vs argument page on real mapper calls; (b)-(e) operands of the trapped
//! invlpg / mov cr3 / invpcid / invlpgb / tlbsync instructions (E4), broadcast builder driven through hook H2.

use crate::gen;
use crate::simphys::Arena;
use crate::trapemu::{self, Event, K};
use crate::util::{Args, Report, Rng, J};
use x86_64::instructions::tlb::{self, InvPcidCommand, Invlpgb, Pcid};
use x86_64::structures::paging::mapper::{Mapper, MapperFlush, MapperFlushAll};
use x86_64::structures::paging::page::PageRange;
use x86_64::structures::paging::{MappedPageTable, Page, PageSize, PageTableFlags, PhysFrame, Size1GiB, Size2MiB, Size4KiB};
use x86_64::{PhysAddr, VirtAddr};

fn evj(evs: &[Event]) -> J {
    J::A(evs.iter().take(8).map(|e| J::s(trapemu::fmt_event(e))).collect())
}

fn check_invlpg(rep: &mut Report, what: &str, addr: u64, evs: &[Event]) {
    rep.eval();
    if evs.len() != 1 || evs[0].kind != K::Invlpg {
        rep.violation(&format!("{}|not-exactly-one-invlpg", what), J::obj(vec![("address", J::hex(addr)), ("events", evj(evs))]));
    } else if evs[0].ea != addr {
        rep.violation(&format!("{}|invlpg-on-other-address", what), J::obj(vec![("address", J::hex(addr)), ("invalidated", J::hex(evs[0].ea)), ("events", evj(evs))]));
    }
}

fn check_flush_all(rep: &mut Report, what: &str, prior_cr3: u64, evs: &[Event]) {
    rep.eval();
    let ctx = || J::obj(vec![("cr3", J::hex(prior_cr3)), ("events", evj(evs))]);
    // reading other control registers is harmless; what counts: exactly one write, to CR3, as the last privileged
    // instruction, after CR3 was read, and nothing else privileged
    let reads: Vec<&Event> = evs.iter().filter(|e| e.kind == K::MovFromCr).collect();
    let writes: Vec<&Event> = evs.iter().filter(|e| e.kind == K::MovToCr).collect();
    if evs.len() != reads.len() + writes.len() || writes.len() != 1 || !reads.iter().any(|e| e.n == 3) || evs.last().map(|e| e.kind) != Some(K::MovToCr) || writes[0].n != 3 {
        rep.violation(&format!("{}|not-a-reload-of-cr3", what), ctx());
    } else if writes[0].val != prior_cr3 {
        let low = (writes[0].val ^ prior_cr3) & 0xfff != 0;
        rep.violation(&format!("{}|{}", what, if low { "cr3-reloaded-with-different-low-bits(pcid)" } else { "cr3-reloaded-with-different-value" }), ctx());
    }
}

fn token_tests(rep: &mut Report, r: &mut Rng) {
    // a small real hierarchy: tokens come from real mapper calls
    let mut phys = vec![0x1000u64];
    for i in 0..14 {
        phys.push(0x10_0000 + i * 0x1000);
    }
    let arena = Arena::new(phys, false, 2, r.next());
    let mut alloc = arena.allocator();
    let mut m = unsafe { MappedPageTable::new(&mut *arena.root_ptr(), arena.mapping()) };
    let fl = PageTableFlags::PRESENT | PageTableFlags::WRITABLE;
    macro_rules! sized {
        ($S:ty, $tag:literal) => {{
            let va = gen::canon(r).0 & !(<$S>::SIZE - 1);
            let page = Page::<$S>::containing_address(VirtAddr::new(va));
            let frame = PhysFrame::<$S>::containing_address(PhysAddr::new(gen::phys(r).0 & !(<$S>::SIZE - 1)));
            arena.st().begin_call();
            if let Ok(tok) = unsafe { m.map_to(page, frame, fl, &mut alloc) } {
                rep.eval();
                if tok.page() != page {
                    rep.violation(concat!("map_to<", $tag, ">|flush-token-names-other-page"), J::obj(vec![("page", J::hex(va)), ("token", J::hex(tok.page().start_address().as_u64()))]));
                }
                let (_, evs) = trapemu::trapped(|| tok.flush());
                check_invlpg(rep, concat!("MapperFlush<", $tag, ">::flush(map_to)"), va, &evs);
                if let Ok(tok) = unsafe { m.update_flags(page, fl | PageTableFlags::NO_EXECUTE) } {
                    let (_, evs) = trapemu::trapped(|| tok.flush());
                    check_invlpg(rep, concat!("MapperFlush<", $tag, ">::flush(update_flags)"), va, &evs);
                }
                // parent entry change -> flush-all token
                let cr3 = (gen::phys(r).0 & 0x000f_ffff_ffff_f000) | if r.chance(1, 2) { r.next() & 0xfff } else { r.next() & 0x18 };
                trapemu::regs().cr[3] = cr3;
                trapemu::regs().cr[4] = (r.next() & !(1 << 17)) | if cr3 & 0xfe7 != 0 || r.chance(1, 2) { 1 << 17 } else { 0 };
                if let Ok(tok) = unsafe { m.set_flags_p4_entry(page, fl | PageTableFlags::USER_ACCESSIBLE) } {
                    let tok: MapperFlushAll = tok;
                    let (_, evs) = trapemu::trapped(|| tok.flush_all());
                    check_flush_all(rep, "MapperFlushAll::flush_all", cr3, &evs);
                    rep.class(&format!("flush_all|cr3-low={}", if cr3 & 0xfff == 0 { "0" } else if cr3 & 0xfe7 == 0 { "pwt/pcd" } else { "pcid" }));
                }
                if let Ok((_, tok)) = m.unmap(page) {
                    rep.eval();
                    if tok.page() != page {
                        rep.violation(concat!("unmap<", $tag, ">|flush-token-names-other-page"), J::obj(vec![("page", J::hex(va))]));
                    }
                    let (_, evs) = trapemu::trapped(|| tok.flush());
                    check_invlpg(rep, concat!("MapperFlush<", $tag, ">::flush(unmap)"), va, &evs);
                }
                rep.class(&format!("token|{}|{}", $tag, gen::half(va)));
            }
            // a token built directly
            let t2 = MapperFlush::new(page);
            let (_, evs) = trapemu::trapped(|| t2.flush());
            check_invlpg(rep, concat!("MapperFlush<", $tag, ">::flush(new)"), va, &evs);
        }};
    }
    sized!(Size4KiB, "4K");
    sized!(Size2MiB, "2M");
    sized!(Size1GiB, "1G");
    let _ = &mut m;
}

fn standalone(rep: &mut Report, r: &mut Rng) {
    // tlb::flush
    let (a, ca) = gen::canon(r);
    let (_, evs) = trapemu::trapped(|| tlb::flush(VirtAddr::new(a)));
    check_invlpg(rep, "tlb::flush", a, &evs);
    rep.class(&format!("tlb::flush|{}|{}", gen::half(a), ca));
    // tlb::flush_all
    let cr3 = (gen::phys(r).0 & 0x000f_ffff_ffff_f000) | match r.below(3) {
        0 => 0,
        1 => r.next() & 0x18,
        _ => r.next() & 0xfff,
    };
    trapemu::regs().cr[3] = cr3;
    // CR4.PCIDE set whenever the low bits hold a PCID, otherwise random
    trapemu::regs().cr[4] = (r.next() & !(1 << 17)) | if cr3 & 0xfe7 != 0 || r.chance(1, 2) { 1 << 17 } else { 0 };
    let (_, evs) = trapemu::trapped(|| tlb::flush_all());
    check_flush_all(rep, "tlb::flush_all", cr3, &evs);
    if trapemu::regs().cr[3] != cr3 {
        rep.violation("tlb::flush_all|cr3-changed", J::obj(vec![("before", J::hex(cr3)), ("after", J::hex(trapemu::regs().cr[3]))]));
    }
    rep.class(&format!("tlb::flush_all|cr3-low={}", if cr3 & 0xfff == 0 { "0" } else if cr3 & 0xfe7 == 0 { "pwt/pcd" } else { "pcid" }));
}

fn invpcid_case(rep: &mut Report, kind: u64, pcid: u16, addr: u64) {
    rep.eval();
    let p = Pcid::new(pcid).unwrap();
    let cmd = match kind {
        0 => InvPcidCommand::Address(VirtAddr::new(addr), p),
        1 => InvPcidCommand::Single(p),
        2 => InvPcidCommand::All,
        _ => InvPcidCommand::AllExceptGlobal,
    };
    let (_, evs) = trapemu::trapped(|| unsafe { tlb::flush_pcid(cmd) });
    let ctx = |evs: &[Event]| J::obj(vec![("kind", J::U(kind)), ("pcid", J::hex(pcid as u64)), ("address", J::hex(addr)), ("events", evj(evs))]);
    if evs.len() != 1 || evs[0].kind != K::Invpcid {
        rep.violation("flush_pcid|not-exactly-one-invpcid", ctx(&evs));
        return;
    }
    let e = &evs[0];
    let mut lo = [0u8; 8];
    let mut hi = [0u8; 8];
    lo.copy_from_slice(&e.mem[0..8]);
    hi.copy_from_slice(&e.mem[8..16]);
    let (dp, da) = (u64::from_le_bytes(lo), u64::from_le_bytes(hi));
    let (ep, ea) = match kind {
        0 => (pcid as u64, addr),
        1 => (pcid as u64, 0),
        _ => (0, 0),
    };
    if e.val2 != kind {
        rep.violation("flush_pcid|wrong-invalidation-type-in-register-operand", ctx(&evs));
    }
    if dp != ep || dp >> 12 != 0 {
        rep.violation("flush_pcid|descriptor-pcid-wrong-or-reserved-bits-set", ctx(&evs));
    }
    // for kinds 1-3 the address field is ignored by hardware; it must be exact for kind 0
    if kind == 0 && da != ea {
        rep.violation("flush_pcid|descriptor-address-wrong", ctx(&evs));
    }
}

struct Opts {
    pcid: Option<u16>,
    asid: Option<u16>,
    global: bool,
    final_only: bool,
    nested: bool,
    before_pages: bool,
    /// a builder is an object that may be re-targeted: the setter is first called with another value
    decoy_pcid: Option<u16>,
    decoy_asid: Option<u16>,
}

fn invlpgb_case<S: x86_64::structures::paging::page::NotGiantPageSize>(rep: &mut Report, tag: &str, start: u64, npages: u64, max: u16, o: &Opts, cls: &str) {
    rep.eval();
    let size = S::SIZE;
    let inv = Invlpgb::verif_new(max, true, 0x1_0000);
    let s = Page::<S>::containing_address(VirtAddr::new(start));
    // end page = start + npages in the contiguous canonical space
    let endpos = (if start >> 47 == 0 { start } else { start - 0xffff_0000_0000_0000 }) as u128 + npages as u128 * size as u128;
    if endpos >= 1 << 48 {
        return;
    }
    let endaddr = if endpos >> 47 == 0 { endpos as u64 } else { endpos as u64 + 0xffff_0000_0000_0000 };
    let e = Page::<S>::containing_address(VirtAddr::new(endaddr));
    let range = PageRange { start: s, end: e };
    let (res, evs) = trapemu::trapped_catch(|| {
        // options may be given before or after the page range
        if o.before_pages {
            let mut b = inv.build();
            if let Some(p) = o.pcid {
                if let Some(d) = o.decoy_pcid {
                    unsafe { b.pcid(Pcid::new(d).unwrap()) };
                }
                unsafe { b.pcid(Pcid::new(p).unwrap()) };
            }
            if let Some(a) = o.asid {
                if let Some(d) = o.decoy_asid {
                    let _ = unsafe { b.asid(d) };
                }
                let _ = unsafe { b.asid(a) };
            }
            if o.global {
                b.include_global();
            }
            if o.final_only {
                b.final_translation_only();
            }
            let b = if o.nested { b.include_nested_translations() } else { b };
            b.pages(range).flush();
        } else {
            let mut b = inv.build().pages(range);
            if let Some(p) = o.pcid {
                if let Some(d) = o.decoy_pcid {
                    unsafe { b.pcid(Pcid::new(d).unwrap()) };
                }
                unsafe { b.pcid(Pcid::new(p).unwrap()) };
            }
            if let Some(a) = o.asid {
                if let Some(d) = o.decoy_asid {
                    let _ = unsafe { b.asid(d) };
                }
                let _ = unsafe { b.asid(a) };
            }
            if o.global {
                b.include_global();
            }
            if o.final_only {
                b.final_translation_only();
            }
            let b = if o.nested { b.include_nested_translations() } else { b };
            b.flush();
        }
    });
    let ctx = |evs: &[Event]| {
        J::obj(vec![("size", J::s(tag)), ("start", J::hex(start)), ("pages", J::U(npages)), ("processor_max", J::U(max as u64)), ("pcid", o.pcid.map(|p| J::U(p as u64)).unwrap_or(J::Null)), ("asid", o.asid.map(|p| J::U(p as u64)).unwrap_or(J::Null)), ("requests", J::U(evs.len() as u64)), ("first_events", evj(evs))])
    };
    if res.is_err() {
        rep.violation(&format!("InvlpgbFlushBuilder<{}>::flush|panic|{}", tag, cls), ctx(&evs));
        return;
    }
    if trapemu::overflowed() {
        rep.violation(&format!("InvlpgbFlushBuilder<{}>::flush|more-requests-than-pages(log-overflow)|{}", tag, cls), ctx(&evs));
        return;
    }
    if evs.len() as u64 > npages + 1 {
        rep.violation(&format!("InvlpgbFlushBuilder<{}>::flush|more-requests-than-pages|{}", tag, cls), ctx(&evs));
        return;
    }
    // coverage with the architectural reading (count+1 pages per request), in positions
    let pos = |a: u64| -> u128 { (if a >> 47 == 0 { a } else { a - 0xffff_0000_0000_0000 }) as u128 };
    let spos = pos(start);
    let mut covered_to = spos; // next uncovered position
    for ev in evs.iter() {
        if ev.kind != K::Invlpgb {
            rep.violation(&format!("InvlpgbFlushBuilder<{}>::flush|unexpected-instruction|{}", tag, cls), ctx(&evs));
            return;
        }
        let rax = ev.val;
        let ecx = ev.val2;
        let edx = ev.val3;
        let count = ecx & 0xffff;
        let va = rax & !0xfff;
        let bad = |what: &str| format!("InvlpgbFlushBuilder<{}>::flush|{}|{}", tag, what, cls);
        if rax & 1 == 0 {
            rep.violation(&bad("address-valid-bit-clear"), ctx(&evs));
            return;
        }
        if count > (max as u64).min(65535) {
            rep.violation(&bad("count-exceeds-processor-maximum"), ctx(&evs));
            return;
        }
        if (ecx >> 31) & 1 != (size == 0x20_0000) as u64 || ecx & 0x7fff_0000 != 0 {
            rep.violation(&bad("stride-bit-or-reserved-ecx-bits-wrong"), ctx(&evs));
            return;
        }
        if !gen::is_canonical(va) || va % size != 0 || pos(va) < spos || pos(va) >= endpos {
            rep.violation(&bad("request-address-is-not-a-page-of-the-range"), ctx(&evs));
            return;
        }
        // option / id fields
        let exp_rax_opts = ((o.pcid.is_some() as u64) << 1) | ((o.asid.is_some() as u64) << 2) | ((o.global as u64) << 3) | ((o.final_only as u64) << 4) | ((o.nested as u64) << 5);
        if rax & 0x3e != exp_rax_opts || rax & 0xfc0 != 0 {
            rep.violation(&bad("option-or-validity-bits-wrong"), ctx(&evs));
            return;
        }
        let exp_edx = ((o.pcid.unwrap_or(0) as u64) << 16) | o.asid.unwrap_or(0) as u64;
        if edx != exp_edx {
            rep.violation(&bad("pcid-or-asid-field-wrong"), ctx(&evs));
            return;
        }
        // gap crossing with the minimal reading: pages va .. va + max(count,1) - 1
        let minimal_pages = count.max(1);
        if va >> 47 == 0 && (va as u128 + minimal_pages as u128 * size as u128) > (1u128 << 47) {
            rep.violation(&bad("request-extends-across-the-non-canonical-gap"), ctx(&evs));
            return;
        }
        if va >> 47 != 0 && (pos(va) + minimal_pages as u128 * size as u128) > (1u128 << 48) {
            rep.violation(&bad("request-extends-past-the-top-of-the-address-space"), ctx(&evs));
            return;
        }
        // coverage (architectural reading: count + 1 pages)
        if pos(va) > covered_to {
            rep.violation(&bad("pages-of-the-range-not-covered"), ctx(&evs));
            return;
        }
        covered_to = covered_to.max(pos(va) + (count as u128 + 1) * size as u128);
    }
    if covered_to < endpos {
        rep.violation(&format!("InvlpgbFlushBuilder<{}>::flush|pages-of-the-range-not-covered|{}", tag, cls), ctx(&evs));
    }
    rep.count("invlpgb_requests_observed", evs.len() as u64);
    rep.class(&format!("invlpgb|{}|{}|opts-{}|max={}|pcid={}|asid={}|g={}|f={}|n={}", tag, cls, if o.before_pages { "before" } else { "after" }, match max { 0 => "0", 1 => "1", 2..=255 => "small", 65535 => "65535", _ => "big" }, o.pcid.is_some(), o.asid.is_some(), o.global, o.final_only, o.nested));
    if rep.want_sample() && !evs.is_empty() {
        rep.sample(ctx(&evs));
    }
}

/// a range of more than 2^32 pages (16 TiB of 4 KiB pages; 65537+ requests at the largest per-request count): page
/// counters narrower than the range would lose its tail
fn invlpgb_huge_range(rep: &mut Report, r: &mut Rng) {
    let o = Opts { pcid: None, asid: None, global: false, final_only: false, nested: false, before_pages: r.chance(1, 2), decoy_pcid: None, decoy_asid: None };
    let npages = (1u64 << 32) + 1 + r.below(5);
    let start = r.below(8) << 30;
    invlpgb_case::<Size4KiB>(rep, "4K", start, npages, 65535, &o, "more-than-2^32-pages");
}

fn invlpgb_tests(rep: &mut Report, r: &mut Rng) {
    let max: u16 = *r.pick(&[0u16, 1, 2, 3, 7, 255, 4095, 65535, 65534, 100]);
    let max = if r.chance(1, 4) { r.next() as u16 } else { max };
    let o = Opts {
        pcid: if r.chance(1, 2) { Some((r.next() & 0xfff) as u16) } else { None },
        asid: if r.chance(1, 2) { Some(r.next() as u16) } else { None },
        global: r.chance(1, 2),
        final_only: r.chance(1, 2),
        nested: r.chance(1, 3),
        before_pages: r.chance(1, 2),
        decoy_pcid: if r.chance(1, 3) { Some((r.next() & 0xfff) as u16) } else { None },
        decoy_asid: if r.chance(1, 3) { Some(r.next() as u16) } else { None },
    };
    let two_m = r.chance(1, 3);
    let size: u64 = if two_m { 0x20_0000 } else { 0x1000 };
    // bound the number of requests per case
    let per_req = (max as u64).max(1);
    let maxpages = (per_req * 3000).min(1 << 22);
    let npages = match r.below(6) {
        0 => 0,
        1 => 1,
        2 => per_req,
        3 => per_req + 1,
        _ => r.below(maxpages + 1),
    };
    let last_lo = (1u64 << 47) - size;
    let top = 0u64.wrapping_sub(size);
    let (start, cls) = match r.below(6) {
        0 => (last_lo - (npages.min(last_lo / size)) * size + size * r.below(2).min(npages), "reaches-gap"),
        1 => (last_lo.saturating_sub(r.below(npages + 1) * size), "spans-gap"),
        2 => (top - npages.min(1 << 20) * size, "reaches-top"),
        3 => (0, "from-zero"),
        4 => (0xffff_8000_0000_0000, "from-upper-start"),
        _ => (gen::canon(r).0 & !(size - 1), "random"),
    };
    if !gen::is_canonical(start) {
        return;
    }
    if two_m {
        invlpgb_case::<Size2MiB>(rep, "2M", start, npages, max, &o, cls);
    } else {
        invlpgb_case::<Size4KiB>(rep, "4K", start, npages, max, &o, cls);
    }
}

fn invlpgb_misc(rep: &mut Report, r: &mut Rng) {
    // no page range: one request without the address-valid bit, carrying every option that was asked for
    let inv = Invlpgb::verif_new(r.next() as u16, true, 0x1_0000);
    let (g, f, n) = (r.chance(1, 2), r.chance(1, 2), r.chance(1, 3));
    let pc = if r.chance(1, 2) { Some((r.next() & 0xfff) as u16) } else { None };
    let asid = if r.chance(1, 2) { Some(r.next() as u16) } else { None };
    let (_, evs) = trapemu::trapped(|| {
        let mut b = inv.build();
        if g {
            b.include_global();
        }
        if f {
            b.final_translation_only();
        }
        if let Some(p) = pc {
            unsafe { b.pcid(Pcid::new(p).unwrap()) };
        }
        if let Some(a) = asid {
            let _ = unsafe { b.asid(a) };
        }
        let b = if n { b.include_nested_translations() } else { b };
        b.flush();
    });
    rep.eval();
    let exp_rax = ((pc.is_some() as u64) << 1) | ((asid.is_some() as u64) << 2) | ((g as u64) << 3) | ((f as u64) << 4) | ((n as u64) << 5);
    let exp_edx = ((pc.unwrap_or(0) as u64) << 16) | asid.unwrap_or(0) as u64;
    if evs.len() != 1 || evs[0].kind != K::Invlpgb || evs[0].val & 0xfff != exp_rax || evs[0].val2 != 0 || evs[0].val3 != exp_edx {
        rep.violation("InvlpgbFlushBuilder::flush(no-pages)|wrong-request", J::obj(vec![("global", J::Bool(g)), ("final_only", J::Bool(f)), ("nested", J::Bool(n)), ("pcid", pc.map(|p| J::U(p as u64)).unwrap_or(J::Null)), ("asid", asid.map(|p| J::U(p as u64)).unwrap_or(J::Null)), ("expected_rax_low", J::hex(exp_rax)), ("expected_edx", J::hex(exp_edx)), ("events", evj(&evs))]));
    }
    let inv = Invlpgb::verif_new(r.next() as u16, false, 16);
    let (_, evs) = trapemu::trapped(|| inv.tlbsync());
    rep.eval();
    if evs.len() != 1 || evs[0].kind != K::Tlbsync {
        rep.violation("Invlpgb::tlbsync|not-exactly-one-tlbsync", evj(&evs));
    }
    // asid out of range is rejected
    let mut b = inv.build();
    let a = r.next() as u16;
    rep.eval();
    let ok = unsafe { b.asid(a) }.is_ok();
    if ok != ((a as u32) < 16) {
        rep.violation("InvlpgbFlushBuilder::asid|range-check-wrong", J::U(a as u64));
    }
    // a rejected ASID leaves the builder as it was: the requests then carry the ASID accepted before, or none
    for prior in [None, Some((r.next() % 16) as u16)] {
        let bad_asid = 16 + (r.next() % 0xfff0) as u16;
        let (rej, evs) = trapemu::trapped(|| {
            let mut b = inv.build();
            if let Some(p) = prior {
                let _ = unsafe { b.asid(p) };
            }
            let rej = unsafe { b.asid(bad_asid) }.is_err();
            b.flush();
            rej
        });
        rep.eval();
        let exp_valid = prior.is_some() as u64;
        let exp_asid = prior.unwrap_or(0) as u64;
        if !rej || evs.len() != 1 || evs[0].kind != K::Invlpgb || (evs[0].val >> 2) & 1 != exp_valid || evs[0].val3 & 0xffff != exp_asid {
            rep.violation("InvlpgbFlushBuilder::asid|rejected-asid-still-used-by-the-flush", J::obj(vec![("accepted_before", prior.map(|p| J::U(p as u64)).unwrap_or(J::Null)), ("rejected", J::U(bad_asid as u64)), ("events", evj(&evs))]));
        }
    }
    if inv.nasid() != 16 || inv.tlb_flush_nested() {
        rep.violation("Invlpgb|accessors-wrong", J::Null);
    }
    // nested translations without processor support must be refused
    let (res, evs) = trapemu::trapped_catch(|| inv.build().include_nested_translations().flush());
    if res.is_ok() || !evs.is_empty() {
        rep.violation("InvlpgbFlushBuilder::include_nested_translations|accepted-without-support", evj(&evs));
    }
    rep.class("invlpgb|misc");
}

/// the flush instructions declare what they touch: values kept live in registers across them stay what they were
fn register_pressure(rep: &mut Report, r: &mut Rng) {
    use crate::util::{pressure_expected, under_register_pressure};
    use x86_64::instructions::tlb::{self, InvPcidCommand, Pcid};
    macro_rules! case {
        ($name:expr, $body:expr) => {{
            rep.eval();
            let seed = r.next() | 1;
            let ((sum, _), _evs) = trapemu::trapped(|| under_register_pressure(seed, || $body));
            if sum != pressure_expected(seed) {
                rep.violation(&format!("{}|changes-a-register-it-does-not-declare", $name), J::obj(vec![("profile", J::s(crate::util::profile_name())), ("expected", J::hex(pressure_expected(seed))), ("got", J::hex(sum))]));
            }
            rep.class(&format!("register-pressure|{}", $name));
        }};
    }
    let va = VirtAddr::new_truncate(r.next());
    let pcid = Pcid::new((r.next() & 0xfff) as u16).unwrap();
    case!("tlb::flush", tlb::flush(va));
    case!("tlb::flush_all", tlb::flush_all());
    case!("tlb::flush_pcid(Address)", unsafe { tlb::flush_pcid(InvPcidCommand::Address(va, pcid)) });
    case!("tlb::flush_pcid(Single)", unsafe { tlb::flush_pcid(InvPcidCommand::Single(pcid)) });
    case!("tlb::flush_pcid(All)", unsafe { tlb::flush_pcid(InvPcidCommand::All) });
    case!("tlb::flush_pcid(AllExceptGlobal)", unsafe { tlb::flush_pcid(InvPcidCommand::AllExceptGlobal) });
}

pub fn run(a: &Args, rep: &mut Report) {
    trapemu::install();
    let mut r = Rng::derive(a.seed, "c11", a.shard);
    for _ in 0..8 {
        register_pressure(rep, &mut r);
    }
    // all 4096 PCIDs x 4 kinds (sharded)
    for pcid in 0..4096u16 {
        if (pcid as u64) % a.nshards != a.shard {
            continue;
        }
        for kind in 0..4 {
            invpcid_case(rep, kind, pcid, gen::canon(&mut r).0);
        }
    }
    rep.exhaustive.push("flush_pcid: all 4096 PCIDs x 4 invalidation kinds".into());
    for k in 0..4 {
        rep.class(&format!("invpcid|kind={}", k));
    }
    let n = a.budget(6_000, 3_000_000);
    for _ in 0..n {
        standalone(rep, &mut r);
        invpcid_case(rep, r.below(4), (r.next() & 0xfff) as u16, gen::canon(&mut r).0);
    }
    let n = a.budget(600, 200_000);
    for _ in 0..n {
        token_tests(rep, &mut r);
    }
    let n = a.budget(1_500, 400_000);
    for i in 0..n {
        invlpgb_tests(rep, &mut r);
        if i % 8 == 0 {
            invlpgb_misc(rep, &mut r);
        }
    }
    if a.shard == 0 || a.thorough() {
        invlpgb_huge_range(rep, &mut r);
    }
    rep.count("traps", trapemu::TRAPS.load(core::sync::atomic::Ordering::Relaxed));
}
