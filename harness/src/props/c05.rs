//! C05 — stepping treats the canonical address space as one contiguous sequence.
//!
//! Oracle: a position model in u128: pos(a) = a (lower half) or a - 0xffff_0000_0000_0000 (upper half).

use crate::gen;
use crate::util::{catch, Args, Report, Rng, J};
use core::iter::Step;
use x86_64::structures::paging::{Page, PageSize, PageTableIndex, Size1GiB, Size2MiB, Size4KiB};
use x86_64::VirtAddr;

const SPACE: u128 = 1 << 48;

#[inline]
fn pos(a: u64) -> u128 {
    if a >> 47 == 0 {
        a as u128
    } else {
        (a - 0xffff_0000_0000_0000) as u128
    }
}
#[inline]
fn addr(p: u128) -> u64 {
    let p = p as u64;
    if p >> 47 == 0 {
        p
    } else {
        p + 0xffff_0000_0000_0000
    }
}

fn exp_fwd(a: u64, n: u64, unit: u64) -> Option<u64> {
    let t = pos(a) + (n as u128) * (unit as u128);
    if t < SPACE {
        Some(addr(t))
    } else {
        None
    }
}
fn exp_bwd(a: u64, n: u64, unit: u64) -> Option<u64> {
    let d = (n as u128) * (unit as u128);
    if d <= pos(a) {
        Some(addr(pos(a) - d))
    } else {
        None
    }
}
fn exp_between(a: u64, b: u64, unit: u64) -> (usize, Option<usize>) {
    if pos(b) >= pos(a) {
        // "(usize::MAX, None) if the number of steps would overflow usize" (core::iter::Step): only possible on 32-bit targets
        match usize::try_from((pos(b) - pos(a)) / unit as u128) {
            Ok(d) => (d, Some(d)),
            Err(_) => (usize::MAX, None),
        }
    } else {
        (0, None)
    }
}

fn fmt_opt(o: Option<u64>) -> J {
    match o {
        Some(x) => J::hex(x),
        None => J::s("None"),
    }
}

fn cls_n(n: u64, dist: u128) -> &'static str {
    let n = n as u128;
    if n == 0 {
        "n=0"
    } else if n < dist {
        "n<gapdist"
    } else if n == dist {
        "n=gapdist"
    } else if n < SPACE {
        "n>gapdist"
    } else {
        "n>=2^48"
    }
}

/// the provided methods of `Step` (panicking and unchecked variants), which an implementation may override: they must land
/// where the checked ones do. The unchecked ones are only called when the position exists (their safety precondition).
fn provided_variants<T: Step + Copy>(rep: &mut Report, ty: &str, x: T, n: u64, ef: Option<u64>, eb: Option<u64>, val: &dyn Fn(T) -> u64) {
    let ctx = |what: &str, exp: Option<u64>, got: J| J::obj(vec![("type", J::s(ty)), ("start", J::hex(val(x))), ("count", J::hex(n)), ("what", J::s(what)), ("expected", fmt_opt(exp)), ("got", got)]);
    match catch(|| val(Step::backward(x, n as usize))) {
        Ok(g) => {
            if Some(g) != eb {
                rep.violation(&format!("{}::backward|wrong", ty), ctx("backward", eb, J::hex(g)));
            }
        }
        Err(()) => {
            if eb.is_some() {
                rep.violation(&format!("{}::backward|spurious-panic", ty), ctx("backward", eb, J::s("panic")));
            }
        }
    }
    if ef.is_some() {
        match catch(|| val(unsafe { Step::forward_unchecked(x, n as usize) })) {
            Ok(g) if Some(g) == ef => {}
            Ok(g) => rep.violation(&format!("{}::forward_unchecked|wrong", ty), ctx("forward_unchecked", ef, J::hex(g))),
            Err(()) => rep.violation(&format!("{}::forward_unchecked|panic", ty), ctx("forward_unchecked", ef, J::s("panic"))),
        }
    }
    if eb.is_some() {
        match catch(|| val(unsafe { Step::backward_unchecked(x, n as usize) })) {
            Ok(g) if Some(g) == eb => {}
            Ok(g) => rep.violation(&format!("{}::backward_unchecked|wrong", ty), ctx("backward_unchecked", eb, J::hex(g))),
            Err(()) => rep.violation(&format!("{}::backward_unchecked|panic", ty), ctx("backward_unchecked", eb, J::s("panic"))),
        }
    }
}

fn check_addr(rep: &mut Report, a: u64, b: u64, n: u64, cn: &str) {
    rep.eval();
    let n = n as usize as u64; // the count the trait actually receives (identity on 64-bit targets)
    let va = VirtAddr::new(a);
    let ctx = |what: &str, e: J, g: J| {
        J::obj(vec![("type", J::s("VirtAddr")), ("start", J::hex(a)), ("count", J::hex(n)), ("other", J::hex(b)), ("what", J::s(what)), ("expected", e), ("got", g)])
    };
    let ef = exp_fwd(a, n, 1);
    match catch(|| Step::forward_checked(va, n as usize).map(|v| v.as_u64())) {
        Ok(g) => {
            if g != ef {
                let sig = if ef.is_some() && g.is_some() {
                    "VirtAddr::forward_checked|wrong-address"
                } else if ef.is_some() {
                    "VirtAddr::forward_checked|spurious-none"
                } else {
                    "VirtAddr::forward_checked|should-fail"
                };
                rep.violation(sig, ctx("forward_checked", fmt_opt(ef), fmt_opt(g)));
            }
        }
        Err(()) => rep.violation("VirtAddr::forward_checked|panic", ctx("forward_checked", fmt_opt(ef), J::s("panic"))),
    }
    let eb = exp_bwd(a, n, 1);
    match catch(|| Step::backward_checked(va, n as usize).map(|v| v.as_u64())) {
        Ok(g) => {
            if g != eb {
                let sig = if eb.is_some() && g.is_some() {
                    "VirtAddr::backward_checked|wrong-address"
                } else if eb.is_some() {
                    "VirtAddr::backward_checked|spurious-none"
                } else {
                    "VirtAddr::backward_checked|should-fail"
                };
                rep.violation(sig, ctx("backward_checked", fmt_opt(eb), fmt_opt(g)));
            }
        }
        Err(()) => rep.violation("VirtAddr::backward_checked|panic", ctx("backward_checked", fmt_opt(eb), J::s("panic"))),
    }
    // Step::forward / backward (panicking variants) agree with the checked ones
    match catch(|| Step::forward(va, n as usize).as_u64()) {
        Ok(g) => {
            if Some(g) != ef {
                rep.violation("VirtAddr::forward|wrong", ctx("forward", fmt_opt(ef), J::hex(g)));
            }
        }
        Err(()) => {
            if ef.is_some() {
                rep.violation("VirtAddr::forward|spurious-panic", ctx("forward", fmt_opt(ef), J::s("panic")));
            }
        }
    }
    provided_variants(rep, "VirtAddr", va, n, ef, eb, &|v: VirtAddr| v.as_u64());
    // steps_between a -> b
    let vb = VirtAddr::new(b);
    let es = exp_between(a, b, 1);
    match catch(|| Step::steps_between(&va, &vb)) {
        Ok(g) => {
            if g != es {
                rep.violation(
                    "VirtAddr::steps_between|wrong",
                    ctx("steps_between", J::s(format!("{:?}", es)), J::s(format!("{:?}", g))),
                );
            }
        }
        Err(()) => rep.violation("VirtAddr::steps_between|panic", ctx("steps_between", J::s(format!("{:?}", es)), J::s("panic"))),
    }
    // mutual inverses: forward(a, steps_between(a,b)) == b
    if let (_, Some(d)) = es {
        if let Ok(Some(g)) = catch(|| Step::forward_checked(va, d).map(|v| v.as_u64())) {
            if g != b {
                rep.violation("VirtAddr|forward(steps_between)-not-inverse", ctx("inverse", J::hex(b), J::hex(g)));
            }
        }
        if let Ok(Some(g)) = catch(|| Step::backward_checked(vb, d).map(|v| v.as_u64())) {
            if g != a {
                rep.violation("VirtAddr|backward(steps_between)-not-inverse", ctx("inverse", J::hex(a), J::hex(g)));
            }
        }
    }
    let dist = if a >> 47 == 0 { (1u128 << 47) - a as u128 } else { SPACE - pos(a) };
    rep.class(&format!("addr|{}|{}|{}|fwd={}|bwd={}", gen::half(a), cn, cls_n(n, dist), ef.is_some(), eb.is_some()));
}

fn check_page<S: PageSize>(rep: &mut Report, a: u64, b: u64, n: u64, tag: &str, cn: &str) {
    rep.eval();
    let n = n as usize as u64; // the count the trait actually receives (identity on 64-bit targets)
    let a = a & !(S::SIZE - 1);
    let b = b & !(S::SIZE - 1);
    let pa = Page::<S>::containing_address(VirtAddr::new(a));
    let pb = Page::<S>::containing_address(VirtAddr::new(b));
    let ctx = |what: &str, e: J, g: J| {
        J::obj(vec![("type", J::s(format!("Page<{}>", tag))), ("start", J::hex(a)), ("count", J::hex(n)), ("other", J::hex(b)), ("what", J::s(what)), ("expected", e), ("got", g)])
    };
    let ef = exp_fwd(a, n, S::SIZE);
    match catch(|| Step::forward_checked(pa, n as usize).map(|v| v.start_address().as_u64())) {
        Ok(g) => {
            if g != ef {
                let sig = if ef.is_some() && g.is_some() { "wrong-page" } else if ef.is_some() { "spurious-none" } else { "should-fail" };
                rep.violation(&format!("Page<{}>::forward_checked|{}", tag, sig), ctx("forward_checked", fmt_opt(ef), fmt_opt(g)));
            }
        }
        Err(()) => rep.violation(&format!("Page<{}>::forward_checked|panic", tag), ctx("forward_checked", fmt_opt(ef), J::s("panic"))),
    }
    let eb = exp_bwd(a, n, S::SIZE);
    match catch(|| Step::backward_checked(pa, n as usize).map(|v| v.start_address().as_u64())) {
        Ok(g) => {
            if g != eb {
                let sig = if eb.is_some() && g.is_some() { "wrong-page" } else if eb.is_some() { "spurious-none" } else { "should-fail" };
                rep.violation(&format!("Page<{}>::backward_checked|{}", tag, sig), ctx("backward_checked", fmt_opt(eb), fmt_opt(g)));
            }
        }
        Err(()) => rep.violation(&format!("Page<{}>::backward_checked|panic", tag), ctx("backward_checked", fmt_opt(eb), J::s("panic"))),
    }
    provided_variants(rep, &format!("Page<{}>", tag), pa, n, ef, eb, &|p: Page<S>| p.start_address().as_u64());
    match catch(|| Step::forward(pa, n as usize).start_address().as_u64()) {
        Ok(g) if Some(g) == ef => {}
        Ok(g) => rep.violation(&format!("Page<{}>::forward|wrong", tag), ctx("forward", fmt_opt(ef), J::hex(g))),
        Err(()) => {
            if ef.is_some() {
                rep.violation(&format!("Page<{}>::forward|spurious-panic", tag), ctx("forward", fmt_opt(ef), J::s("panic")));
            }
        }
    }
    let es = exp_between(a, b, S::SIZE);
    match catch(|| Step::steps_between(&pa, &pb)) {
        Ok(g) => {
            if g != es {
                rep.violation(
                    &format!("Page<{}>::steps_between|wrong", tag),
                    ctx("steps_between", J::s(format!("{:?}", es)), J::s(format!("{:?}", g))),
                );
            }
        }
        Err(()) => rep.violation(&format!("Page<{}>::steps_between|panic", tag), ctx("steps_between", J::s(format!("{:?}", es)), J::s("panic"))),
    }
    if let (_, Some(d)) = es {
        if let Ok(Some(g)) = catch(|| Step::forward_checked(pa, d).map(|v| v.start_address().as_u64())) {
            if g != b {
                rep.violation(&format!("Page<{}>|forward(steps_between)-not-inverse", tag), ctx("inverse", J::hex(b), J::hex(g)));
            }
        }
        if let Ok(Some(g)) = catch(|| Step::backward_checked(pb, d).map(|v| v.start_address().as_u64())) {
            if g != a {
                rep.violation(&format!("Page<{}>|backward(steps_between)-not-inverse", tag), ctx("inverse", J::hex(a), J::hex(g)));
            }
        }
    }
    let mul_ovf = (n as u128) * (S::SIZE as u128) > u64::MAX as u128;
    rep.class(&format!("page{}|{}|{}|fwd={}|bwd={}|mulovf={}", tag, gen::half(a), cn, ef.is_some(), eb.is_some(), mul_ovf));
}

fn check_index(rep: &mut Report, s: u16, e: u16, n: u64) {
    rep.eval();
    let n = n as usize as u64; // the count the trait actually receives (identity on 64-bit targets)
    let is = PageTableIndex::new(s);
    let ie = PageTableIndex::new(e);
    let ctx = |what: &str| J::obj(vec![("type", J::s("PageTableIndex")), ("start", J::U(s as u64)), ("count", J::hex(n)), ("other", J::U(e as u64)), ("what", J::s(what))]);
    let ef = if (s as u128) + (n as u128) < 512 { Some((s as u64 + n) as u16) } else { None };
    match catch(|| Step::forward_checked(is, n as usize).map(u16::from)) {
        Ok(g) => {
            if g != ef {
                rep.violation("PageTableIndex::forward_checked|wrong", ctx("forward_checked"));
            }
            if let Some(g) = g {
                if g >= 512 {
                    rep.violation("PageTableIndex::forward_checked|left-0..512", ctx("forward_checked"));
                }
            }
        }
        Err(()) => rep.violation("PageTableIndex::forward_checked|panic", ctx("forward_checked")),
    }
    let eb = if n <= s as u64 { Some(s - n as u16) } else { None };
    match catch(|| Step::backward_checked(is, n as usize).map(u16::from)) {
        Ok(g) => {
            if g != eb {
                rep.violation("PageTableIndex::backward_checked|wrong", ctx("backward_checked"));
            }
        }
        Err(()) => rep.violation("PageTableIndex::backward_checked|panic", ctx("backward_checked")),
    }
    provided_variants(rep, "PageTableIndex", is, n, ef.map(|x| x as u64), eb.map(|x| x as u64), &|i: PageTableIndex| u16::from(i) as u64);
    match catch(|| u16::from(Step::forward(is, n as usize))) {
        Ok(g) if Some(g) == ef => {}
        Ok(_) => rep.violation("PageTableIndex::forward|wrong", ctx("forward")),
        Err(()) => {
            if ef.is_some() {
                rep.violation("PageTableIndex::forward|spurious-panic", ctx("forward"));
            }
        }
    }
    let es = if e >= s { ((e - s) as usize, Some((e - s) as usize)) } else { (0, None) };
    match catch(|| Step::steps_between(&is, &ie)) {
        Ok(g) => {
            if g != es {
                rep.violation("PageTableIndex::steps_between|wrong", ctx("steps_between"));
            }
        }
        Err(()) => rep.violation("PageTableIndex::steps_between|panic", ctx("steps_between")),
    }
}

fn pick_addr(r: &mut Rng) -> (u64, &'static str) {
    match r.below(10) {
        0 => (0, "zero"),
        1 => (0x7fff_ffff_ffffu64.wrapping_sub(r.below(0x2001)), "below-gap"),
        2 => (0xffff_8000_0000_0000u64.wrapping_add(r.below(0x2001)), "above-gap"),
        3 => (u64::MAX - r.below(0x2001), "top"),
        4 => (r.below(0x2001), "bottom"),
        5 => {
            // near a huge-page boundary around the gap / top
            let base = *r.pick(&[0x7fff_c000_0000u64, 0x7fff_ffe0_0000, 0xffff_ffff_c000_0000, 0xffff_ffff_ffe0_0000, 0xffff_8000_4000_0000, 0x4000_0000, 0x20_0000]);
            (base.wrapping_add(r.below(0x3000)).wrapping_sub(0x1000) | if base >> 47 != 0 { 0xffff_0000_0000_0000 } else { 0 }, "huge-edge")
        }
        _ => gen::canon(r),
    }
}

pub fn run(a: &Args, rep: &mut Report) {
    let mut r = Rng::derive(a.seed, "c05", a.shard);
    // PageTableIndex: exhaustive starts x ends(strided) x counts
    let (sw0, sw) = a.sweep();
    if a.shard == 0 {
        let big = [512u64, 513, 1023, 1024, 65535, 65536, 1 << 32, u64::MAX, u64::MAX - 511];
        for s in (0..512u16).skip(sw0).step_by(sw) {
            for n in (0..=1024u64).skip(sw0 % 13).step_by(if sw == 1 { 1 } else { 13 }) {
                let e = ((s as u64 * 7 + n * 13) % 512) as u16;
                check_index(rep, s, e, n);
            }
            for &n in big.iter() {
                check_index(rep, s, 511 - s, n);
            }
        }
        for s in (0..512u16).skip(sw0).step_by(sw) {
            for e in (0..512u16).skip(sw0 % 13).step_by(if sw == 1 { 1 } else { 13 }) {
                check_index(rep, s, e, (e as u64).wrapping_sub(s as u64));
            }
        }
        if sw == 1 {
            rep.exhaustive.push("PageTableIndex: 512 starts x counts 0..=1024 and 9 big counts; all 512^2 (start,end) pairs for steps_between".into());
        }
        rep.class("index|exhaustive-starts-counts");
        rep.class("index|exhaustive-pairs");
    }
    let n = a.budget(2_000_000, 300_000_000);
    for i in 0..n {
        let (s, cs) = pick_addr(&mut r);
        if !gen::is_canonical(s) {
            continue;
        }
        let (e, _) = if r.chance(1, 3) { (s.wrapping_add(r.below(0x4000)).wrapping_sub(0x2000), "near") } else { pick_addr(&mut r) };
        let e = if gen::is_canonical(e) { e } else { gen::sign_extend48(e) };
        // distances of exactly usize::MAX (+-1) steps: the last one that still has an upper bound. Only representable
        // where usize is narrower than the 48-bit address space (32-bit targets); never taken on x86-64.
        let edge = if r.chance(1, 8) { Some((usize::MAX as u128) + r.below(3) as u128 - 1) } else { None };
        let far = |from: u64, unit: u64| -> Option<u64> {
            let t = pos(from & !(unit - 1)) + edge? * unit as u128;
            if t < SPACE {
                Some(addr(t))
            } else {
                None
            }
        };
        let e = far(s, 1).unwrap_or(e);
        let dist = if s >> 47 == 0 { (1u64 << 47) - s } else { 0u64.wrapping_sub(s) };
        let (cnt, cc) = gen::count(&mut r, dist);
        let _ = cs;
        check_addr(rep, s, e, cnt, cc);
        // pages: counts in page units
        let which = r.below(3);
        let unit = [4096u64, 1 << 21, 1 << 30][which as usize];
        let pcnt = match r.below(8) {
            0 => cnt,
            1 => u64::MAX / unit,
            2 => u64::MAX / unit + 1,
            3 => (1u64 << 48) / unit,
            4 => (1u64 << 48) / unit - 1,
            5 => dist / unit,
            6 => dist / unit + 1,
            _ => cnt / unit,
        };
        let e = far(s, unit).unwrap_or(e);
        match which {
            0 => check_page::<Size4KiB>(rep, s, e, pcnt, "4K", cc),
            1 => check_page::<Size2MiB>(rep, s, e, pcnt, "2M", cc),
            _ => check_page::<Size1GiB>(rep, s, e, pcnt, "1G", cc),
        }
        if i < 4 {
            rep.sample(J::obj(vec![
                ("start", J::hex(s)),
                ("end", J::hex(e)),
                ("count", J::hex(cnt)),
                ("expected_forward", fmt_opt(exp_fwd(s, cnt, 1))),
                ("expected_backward", fmt_opt(exp_bwd(s, cnt, 1))),
                ("expected_steps_between", J::s(format!("{:?}", exp_between(s, e, 1)))),
            ]));
        }
    }
}
