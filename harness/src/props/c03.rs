//! C03 — address values are always valid (canonical virtual, 52-bit physical).
//!
//! Oracle: an independent predicate on the raw u64 of every address value that any safe API call
//! hands back, plus exactness of the checked / truncating constructors.

use crate::gen::{self, is_canonical, sign_extend48};
use crate::util::{catch, Args, Report, Rng, J};
use core::iter::Step;
use x86_64::structures::idt::{Entry, HandlerFunc};
use x86_64::structures::paging::page_table::PageTableEntry;
use x86_64::structures::paging::{
    Page, PageSize, PageTableIndex, PhysFrame, Size1GiB, Size2MiB, Size4KiB,
};
use x86_64::{PhysAddr, VirtAddr};

#[inline]
fn phys_ok(x: u64) -> bool {
    x >> 52 == 0
}

fn chk_v(rep: &mut Report, op: &str, v: VirtAddr, ctx: &dyn Fn() -> J) {
    let x = v.as_u64();
    if !is_canonical(x) {
        rep.violation(
            &format!("{}|noncanonical-virt", op),
            J::obj(vec![("op", J::s(op)), ("result", J::hex(x)), ("ctx", ctx())]),
        );
    }
}
fn chk_p(rep: &mut Report, op: &str, p: PhysAddr, ctx: &dyn Fn() -> J) {
    let x = p.as_u64();
    if !phys_ok(x) {
        rep.violation(
            &format!("{}|phys-above-2^52", op),
            J::obj(vec![("op", J::s(op)), ("result", J::hex(x)), ("ctx", ctx())]),
        );
    }
}

fn constructors(rep: &mut Report, x: u64, cls: &str, r: &mut Rng) {
    rep.eval();
    let ctx = || J::obj(vec![("input", J::hex(x))]);
    let canon = is_canonical(x);
    // --- VirtAddr::try_new
    match VirtAddr::try_new(x) {
        Ok(v) => {
            if !canon {
                rep.violation("VirtAddr::try_new|accepted-noncanonical", ctx());
            } else if v.as_u64() != x {
                rep.violation("VirtAddr::try_new|altered-valid", ctx());
            }
            chk_v(rep, "VirtAddr::try_new", v, &ctx);
        }
        Err(e) => {
            if canon {
                rep.violation("VirtAddr::try_new|rejected-canonical", ctx());
            } else if e.0 != x {
                rep.violation("VirtAddr::try_new|err-payload", ctx());
            }
        }
    }
    // --- VirtAddr::new
    match catch(|| VirtAddr::new(x)) {
        Ok(v) => {
            if !canon {
                rep.violation("VirtAddr::new|accepted-noncanonical", ctx());
            } else if v.as_u64() != x {
                rep.violation("VirtAddr::new|altered-valid", ctx());
            }
        }
        Err(()) => {
            if canon {
                rep.violation("VirtAddr::new|panicked-on-canonical", ctx());
            }
        }
    }
    // --- VirtAddr::new_truncate
    let t = VirtAddr::new_truncate(x);
    chk_v(rep, "VirtAddr::new_truncate", t, &ctx);
    if t.as_u64() != sign_extend48(x) {
        rep.violation("VirtAddr::new_truncate|not-sign-extension-of-low-48", ctx());
    }
    if VirtAddr::new_truncate(t.as_u64()).as_u64() != t.as_u64() {
        rep.violation("VirtAddr::new_truncate|not-idempotent", ctx());
    }
    let hi = r.next() << 48;
    if VirtAddr::new_truncate(x ^ hi).as_u64() != t.as_u64() {
        rep.violation("VirtAddr::new_truncate|depends-on-high-bits", ctx());
    }
    if canon && t.as_u64() != x {
        rep.violation("VirtAddr::new_truncate|disagrees-with-try_new-on-valid", ctx());
    }
    // --- from_ptr (the crate offers it on 64-bit targets only)
    #[cfg(target_pointer_width = "64")]
    match catch(|| VirtAddr::from_ptr(x as *const u8)) {
        Ok(v) => {
            if !canon || v.as_u64() != x {
                rep.violation("VirtAddr::from_ptr|wrong", ctx());
            }
        }
        Err(()) => {
            if canon {
                rep.violation("VirtAddr::from_ptr|panicked-on-canonical", ctx());
            }
        }
    }
    // --- the unsafe constructors, called only where their precondition (a valid address) holds
    if canon && unsafe { VirtAddr::new_unsafe(x) }.as_u64() != x {
        rep.violation("VirtAddr::new_unsafe|altered-valid", ctx());
    }
    if phys_ok(x) && unsafe { PhysAddr::new_unsafe(x) }.as_u64() != x {
        rep.violation("PhysAddr::new_unsafe|altered-valid", ctx());
    }
    // --- PhysAddr
    let pok = phys_ok(x);
    match PhysAddr::try_new(x) {
        Ok(p) => {
            if !pok {
                rep.violation("PhysAddr::try_new|accepted-invalid", ctx());
            } else if p.as_u64() != x {
                rep.violation("PhysAddr::try_new|altered-valid", ctx());
            }
        }
        Err(e) => {
            if pok {
                rep.violation("PhysAddr::try_new|rejected-valid", ctx());
            } else if e.0 != x {
                rep.violation("PhysAddr::try_new|err-payload", ctx());
            }
        }
    }
    match catch(|| PhysAddr::new(x)) {
        Ok(p) => {
            if !pok {
                rep.violation("PhysAddr::new|accepted-invalid", ctx());
            } else if p.as_u64() != x {
                rep.violation("PhysAddr::new|altered-valid", ctx());
            }
        }
        Err(()) => {
            if pok {
                rep.violation("PhysAddr::new|panicked-on-valid", ctx());
            }
        }
    }
    let pt = PhysAddr::new_truncate(x);
    chk_p(rep, "PhysAddr::new_truncate", pt, &ctx);
    if pt.as_u64() != x & 0xf_ffff_ffff_ffff {
        rep.violation("PhysAddr::new_truncate|not-low-52", ctx());
    }
    if PhysAddr::new_truncate(pt.as_u64()).as_u64() != pt.as_u64() {
        rep.violation("PhysAddr::new_truncate|not-idempotent", ctx());
    }
    let hi = r.next() << 52;
    if PhysAddr::new_truncate(x ^ hi).as_u64() != pt.as_u64() {
        rep.violation("PhysAddr::new_truncate|depends-on-high-bits", ctx());
    }
    // --- raw carriers: PageTableEntry::addr, idt::Entry::handler_addr after arbitrary raw contents
    let pte: PageTableEntry = unsafe { core::mem::transmute::<u64, PageTableEntry>(x) };
    match catch(|| pte.addr()) {
        Ok(p) => chk_p(rep, "PageTableEntry::addr", p, &ctx),
        Err(()) => {}
    }
    // ... and the frame of an entry with arbitrary flag bits (0-11, 52-63) around a valid address
    for raw in [x, x | 1, (x & 0x000f_ffff_ffff_f000) | 1 | (r.next() & 0xfff0_0000_0000_0ffe)] {
        let pte: PageTableEntry = unsafe { core::mem::transmute::<u64, PageTableEntry>(raw) };
        if let Ok(Ok(f)) = catch(|| pte.frame()) {
            chk_p(rep, "PageTableEntry::frame", f.start_address(), &ctx);
            if f.start_address().as_u64() != raw & 0x000f_ffff_ffff_f000 {
                rep.violation("PageTableEntry::frame|not-the-address-bits-of-the-entry", J::obj(vec![("entry", J::hex(raw)), ("frame", J::hex(f.start_address().as_u64()))]));
            }
        }
    }
    let raw: [u64; 2] = [x, r.next() ^ x.rotate_left(13)];
    let ent: Entry<HandlerFunc> = unsafe { core::mem::transmute::<[u64; 2], Entry<HandlerFunc>>(raw) };
    match catch(|| ent.handler_addr()) {
        Ok(v) => chk_v(rep, "idt::Entry::handler_addr", v, &ctx),
        Err(()) => {}
    }
    rep.class(&format!(
        "ctor|{}|{}|{}",
        cls,
        gen::half(x),
        if pok { "phys-ok" } else { "phys-bad" }
    ));
}

/// A small register machine over addresses / pages / frames. Panics are legal outcomes; every value
/// that comes back is checked.
struct Regs {
    v: [VirtAddr; 4],
    p: [PhysAddr; 4],
}

fn page_ops<S: PageSize>(rep: &mut Report, r: &mut Rng, regs: &mut Regs, tag: &str, log: &mut Vec<J>) {
    let i = r.below(4) as usize;
    let o = r.below(4) as usize;
    let (n, _) = gen::count(r, 0);
    let a = regs.v[i];
    let which = r.below(10);
    let name;
    let res: Result<Option<VirtAddr>, ()> = match which {
        9 => {
            // exclusive range, typically from the end of the lower half into the upper half: whatever it yields (or
            // leaves in its public `start` field) must be a valid page
            name = "PageRange::next";
            catch(|| {
                let s = if r.chance(1, 2) { Page::<S>::containing_address(VirtAddr::new(0x7fff_ffff_ffff - (n % 4) * S::SIZE)) } else { Page::<S>::containing_address(a) };
                let e = if r.chance(1, 2) { Page::<S>::containing_address(VirtAddr::new(0xffff_8000_0000_0000 + 3 * S::SIZE)) } else { Page::<S>::containing_address(regs.v[o]) };
                let mut it = Page::range(s, e);
                let mut last = None;
                for _ in 0..(n % 6) + 1 {
                    match it.next() {
                        Some(p) => last = Some(p.start_address()),
                        None => break,
                    }
                    // the public field is an address value obtained through the safe API as well
                    last = Some(it.start.start_address()).filter(|v| !crate::gen::is_canonical(v.as_u64())).or(last);
                }
                last
            })
        }
        0 => {
            name = "Page::containing_address.start_address";
            catch(|| Some(Page::<S>::containing_address(a).start_address()))
        }
        1 => {
            name = "Page::from_start_address";
            catch(|| Page::<S>::from_start_address(a).ok().map(|p| p.start_address()))
        }
        2 => {
            name = "Page+u64";
            catch(|| Some((Page::<S>::containing_address(a) + n).start_address()))
        }
        3 => {
            name = "Page-u64";
            catch(|| Some((Page::<S>::containing_address(a) - n).start_address()))
        }
        4 => {
            name = "Page+=u64";
            {
                let mut p = Page::<S>::containing_address(a);
                let _ = catch(|| p += n);
                Ok::<_, ()>(Some(p.start_address()))
            }
        }
        5 => {
            name = "Page-=u64";
            {
                let mut p = Page::<S>::containing_address(a);
                let _ = catch(|| p -= n);
                Ok::<_, ()>(Some(p.start_address()))
            }
        }
        6 => {
            name = "Page::forward_checked";
            catch(|| Step::forward_checked(Page::<S>::containing_address(a), n as usize).map(|p| p.start_address()))
        }
        7 => {
            name = "Page::backward_checked";
            catch(|| Step::backward_checked(Page::<S>::containing_address(a), n as usize).map(|p| p.start_address()))
        }
        _ => {
            name = "PageRangeInclusive::next";
            catch(|| {
                let s = Page::<S>::containing_address(a);
                let e = Page::<S>::containing_address(regs.v[o]);
                let mut it = Page::range_inclusive(s, e);
                let mut last = None;
                for _ in 0..(n % 5) + 1 {
                    match it.next() {
                        Some(p) => last = Some(p.start_address()),
                        None => break,
                    }
                }
                last
            })
        }
    };
    rep.eval();
    let opname = format!("{}<{}>", name, tag);
    let outcome = match &res {
        Ok(Some(v)) => {
            let input = a.as_u64();
            chk_v(rep, &opname, *v, &|| {
                J::obj(vec![("input", J::hex(input)), ("n", J::hex(n))])
            });
            if v.as_u64() % S::SIZE != 0 {
                rep.violation(
                    &format!("{}|page-start-unaligned", opname),
                    J::obj(vec![("input", J::hex(input)), ("n", J::hex(n)), ("result", J::hex(v.as_u64()))]),
                );
            }
            regs.v[o] = *v;
            "ok"
        }
        Ok(None) => "none",
        Err(()) => "panic",
    };
    rep.class(&format!("prog|{}|{}", opname, outcome));
    if log.len() < 50 {
        log.push(J::s(format!("{}({:#x},{:#x})->{}", opname, a.as_u64(), n, outcome)));
    }
}

fn frame_ops<S: PageSize>(rep: &mut Report, r: &mut Rng, regs: &mut Regs, tag: &str, log: &mut Vec<J>) {
    let i = r.below(4) as usize;
    let o = r.below(4) as usize;
    let (n, _) = gen::count(r, 0);
    let a = regs.p[i];
    let name;
    let res: Result<Option<PhysAddr>, ()> = match r.below(7) {
        0 => {
            name = "PhysFrame::containing_address.start_address";
            catch(|| Some(PhysFrame::<S>::containing_address(a).start_address()))
        }
        1 => {
            name = "PhysFrame::from_start_address";
            catch(|| PhysFrame::<S>::from_start_address(a).ok().map(|p| p.start_address()))
        }
        2 => {
            name = "PhysFrame+u64";
            catch(|| Some((PhysFrame::<S>::containing_address(a) + n).start_address()))
        }
        3 => {
            name = "PhysFrame-u64";
            catch(|| Some((PhysFrame::<S>::containing_address(a) - n).start_address()))
        }
        4 => {
            name = "PhysFrame+=u64";
            {
                let mut p = PhysFrame::<S>::containing_address(a);
                let _ = catch(|| p += n);
                Ok::<_, ()>(Some(p.start_address()))
            }
        }
        5 => {
            name = "PhysFrame-=u64";
            {
                let mut p = PhysFrame::<S>::containing_address(a);
                let _ = catch(|| p -= n);
                Ok::<_, ()>(Some(p.start_address()))
            }
        }
        _ => {
            name = "PhysFrameRangeInclusive::next";
            catch(|| {
                let s = PhysFrame::<S>::containing_address(a);
                let e = PhysFrame::<S>::containing_address(regs.p[o]);
                // now and then the range ends at the very last frame of this size and is walked to its end
                let top = PhysFrame::<S>::containing_address(PhysAddr::new((1u64 << 52) - 1));
                let (s, e) = if n % 3 == 0 { (PhysFrame::<S>::containing_address(PhysAddr::new(top.start_address().as_u64() - (n % 4) * S::SIZE)), top) } else { (s, e) };
                let mut it = PhysFrame::range_inclusive(s, e);
                let mut last = None;
                for _ in 0..(n % 5) + 2 {
                    let item = it.next();
                    // the iterator's public fields are frames as well, whatever it has yielded so far
                    for f in [it.start.start_address(), it.end.start_address()] {
                        if !phys_ok(f.as_u64()) {
                            last = Some(f);
                        }
                    }
                    match item {
                        Some(p) => last = last.filter(|v: &PhysAddr| !phys_ok(v.as_u64())).or(Some(p.start_address())),
                        None => break,
                    }
                }
                last
            })
        }
    };
    rep.eval();
    let opname = format!("{}<{}>", name, tag);
    let outcome = match &res {
        Ok(Some(v)) => {
            let input = a.as_u64();
            chk_p(rep, &opname, *v, &|| {
                J::obj(vec![("input", J::hex(input)), ("n", J::hex(n))])
            });
            if v.as_u64() % S::SIZE != 0 {
                rep.violation(
                    &format!("{}|frame-start-unaligned", opname),
                    J::obj(vec![("input", J::hex(input)), ("n", J::hex(n)), ("result", J::hex(v.as_u64()))]),
                );
            }
            regs.p[o] = *v;
            "ok"
        }
        Ok(None) => "none",
        Err(()) => "panic",
    };
    rep.class(&format!("prog|{}|{}", opname, outcome));
    if log.len() < 50 {
        log.push(J::s(format!("{}({:#x},{:#x})->{}", opname, a.as_u64(), n, outcome)));
    }
}

fn program(rep: &mut Report, r: &mut Rng, len: usize) {
    let mut regs = Regs {
        v: [VirtAddr::zero(); 4],
        p: [PhysAddr::zero(); 4],
    };
    for k in 0..4 {
        regs.v[k] = VirtAddr::new_truncate(gen::canon(r).0);
        regs.p[k] = PhysAddr::new_truncate(gen::phys(r).0);
    }
    let mut log: Vec<J> = Vec::new();
    for _ in 0..len {
        let i = r.below(4) as usize;
        let o = r.below(4) as usize;
        match r.below(24) {
            0..=9 => {
                // VirtAddr ops
                let a = regs.v[i];
                let (n, _) = if r.chance(1, 2) {
                    gen::count(r, 0x8000_0000_0000u64.wrapping_sub(a.as_u64()))
                } else {
                    gen::u64_edge(r)
                };
                let name;
                let res: Result<Option<VirtAddr>, ()> = match r.below(12) {
                    0 => {
                        name = "VirtAddr+u64";
                        catch(|| Some(a + n))
                    }
                    1 => {
                        name = "VirtAddr-u64";
                        catch(|| Some(a - n))
                    }
                    2 => {
                        name = "VirtAddr+=u64";
                        {
                            // the operand is looked at after the call whether it returned or panicked: it is still an address
                            let mut b = a;
                            let _ = catch(|| b += n);
                            Ok::<_, ()>(Some(b))
                        }
                    }
                    3 => {
                        name = "VirtAddr-=u64";
                        {
                            // the operand is looked at after the call whether it returned or panicked: it is still an address
                            let mut b = a;
                            let _ = catch(|| b -= n);
                            Ok::<_, ()>(Some(b))
                        }
                    }
                    4 => {
                        name = "VirtAddr::align_up";
                        let al = if r.chance(7, 8) { 1u64 << r.below(64) } else { n };
                        catch(|| Some(a.align_up(al)))
                    }
                    5 => {
                        name = "VirtAddr::align_down";
                        let al = if r.chance(7, 8) { 1u64 << r.below(64) } else { n };
                        catch(|| Some(a.align_down(al)))
                    }
                    6 => {
                        name = "VirtAddr::forward_checked";
                        catch(|| Step::forward_checked(a, n as usize))
                    }
                    7 => {
                        name = "VirtAddr::backward_checked";
                        catch(|| Step::backward_checked(a, n as usize))
                    }
                    8 => {
                        name = "VirtAddr::forward";
                        catch(|| Some(Step::forward(a, n as usize)))
                    }
                    9 => {
                        name = "VirtAddr::backward";
                        catch(|| Some(Step::backward(a, n as usize)))
                    }
                    10 => {
                        name = "VirtAddr::try_new";
                        catch(|| VirtAddr::try_new(n).ok())
                    }
                    _ => {
                        name = "Page::from_page_table_indices";
                        let ix = |r: &mut Rng| PageTableIndex::new_truncate(r.next() as u16);
                        let (a4, a3, a2, a1) = (ix(r), ix(r), ix(r), ix(r));
                        match r.below(3) {
                            0 => catch(|| Some(Page::from_page_table_indices(a4, a3, a2, a1).start_address())),
                            1 => catch(|| Some(Page::from_page_table_indices_2mib(a4, a3, a2).start_address())),
                            _ => catch(|| Some(Page::from_page_table_indices_1gib(a4, a3).start_address())),
                        }
                    }
                };
                rep.eval();
                let outcome = match &res {
                    Ok(Some(v)) => {
                        let input = a.as_u64();
                        chk_v(rep, name, *v, &|| {
                            J::obj(vec![("input", J::hex(input)), ("n", J::hex(n))])
                        });
                        regs.v[o] = *v;
                        "ok"
                    }
                    Ok(None) => "none",
                    Err(()) => "panic",
                };
                rep.class(&format!("prog|{}|{}|{}", name, outcome, gen::half(a.as_u64())));
                if log.len() < 50 {
                    log.push(J::s(format!("{}({:#x},{:#x})->{}", name, a.as_u64(), n, outcome)));
                }
            }
            10..=14 => {
                let a = regs.p[i];
                let (n, _) = gen::u64_edge(r);
                let name;
                let res: Result<Option<PhysAddr>, ()> = match r.below(7) {
                    0 => {
                        name = "PhysAddr+u64";
                        catch(|| Some(a + n))
                    }
                    1 => {
                        name = "PhysAddr-u64";
                        catch(|| Some(a - n))
                    }
                    2 => {
                        name = "PhysAddr+=u64";
                        {
                            // the operand is looked at after the call whether it returned or panicked: it is still an address
                            let mut b = a;
                            let _ = catch(|| b += n);
                            Ok::<_, ()>(Some(b))
                        }
                    }
                    3 => {
                        name = "PhysAddr-=u64";
                        {
                            // the operand is looked at after the call whether it returned or panicked: it is still an address
                            let mut b = a;
                            let _ = catch(|| b -= n);
                            Ok::<_, ()>(Some(b))
                        }
                    }
                    4 => {
                        name = "PhysAddr::align_up";
                        let al = if r.chance(7, 8) { 1u64 << r.below(64) } else { n };
                        catch(|| Some(a.align_up(al)))
                    }
                    5 => {
                        name = "PhysAddr::align_down";
                        let al = if r.chance(7, 8) { 1u64 << r.below(64) } else { n };
                        catch(|| Some(a.align_down(al)))
                    }
                    _ => {
                        name = "PhysAddr::try_new";
                        catch(|| PhysAddr::try_new(n).ok())
                    }
                };
                rep.eval();
                let outcome = match &res {
                    Ok(Some(v)) => {
                        let input = a.as_u64();
                        chk_p(rep, name, *v, &|| {
                            J::obj(vec![("input", J::hex(input)), ("n", J::hex(n))])
                        });
                        regs.p[o] = *v;
                        "ok"
                    }
                    Ok(None) => "none",
                    Err(()) => "panic",
                };
                rep.class(&format!("prog|{}|{}", name, outcome));
                if log.len() < 50 {
                    log.push(J::s(format!("{}({:#x},{:#x})->{}", name, a.as_u64(), n, outcome)));
                }
            }
            15 | 16 => page_ops::<Size4KiB>(rep, r, &mut regs, "4K", &mut log),
            17 | 18 => page_ops::<Size2MiB>(rep, r, &mut regs, "2M", &mut log),
            19 => page_ops::<Size1GiB>(rep, r, &mut regs, "1G", &mut log),
            20 | 21 => frame_ops::<Size4KiB>(rep, r, &mut regs, "4K", &mut log),
            22 => frame_ops::<Size2MiB>(rep, r, &mut regs, "2M", &mut log),
            _ => frame_ops::<Size1GiB>(rep, r, &mut regs, "1G", &mut log),
        }
    }
    if rep.want_sample() {
        rep.sample(J::obj(vec![("kind", J::s("program")), ("ops", J::A(log))]));
    }
}

/// `Translate::translate_addr` is a provided method: it is also what a user-written `Translate` implementation gets. Whatever
/// `translate` reports, the address it hands out is a valid one, or it panics.
struct AnyTranslation {
    base: u64,
    size: u8,
    offset: u64,
}
impl AnyTranslation {
    fn frame(&self) -> x86_64::structures::paging::mapper::MappedFrame {
        use x86_64::structures::paging::mapper::MappedFrame;
        use x86_64::structures::paging::{Size1GiB, Size2MiB, Size4KiB};
        match self.size {
            0 => MappedFrame::Size4KiB(PhysFrame::<Size4KiB>::containing_address(PhysAddr::new(self.base))),
            1 => MappedFrame::Size2MiB(PhysFrame::<Size2MiB>::containing_address(PhysAddr::new(self.base))),
            _ => MappedFrame::Size1GiB(PhysFrame::<Size1GiB>::containing_address(PhysAddr::new(self.base))),
        }
    }
}
impl x86_64::structures::paging::mapper::Translate for AnyTranslation {
    fn translate(&self, _addr: VirtAddr) -> x86_64::structures::paging::mapper::TranslateResult {
        x86_64::structures::paging::mapper::TranslateResult::Mapped { frame: self.frame(), offset: self.offset, flags: x86_64::structures::paging::PageTableFlags::PRESENT }
    }
}

fn provided_translate_addr(rep: &mut Report, r: &mut Rng) {
    use x86_64::structures::paging::mapper::Translate;
    for _ in 0..2000 {
        rep.eval();
        let base = gen::phys(r).0;
        let offset = match r.below(5) {
            0 => r.next(),
            1 => r.next() & 0xfff,
            2 => (r.next() & 0xfff) | (1 << (52 + r.below(12))),
            3 => u64::MAX,
            _ => r.next() & 0x3fff_ffff,
        };
        let t = AnyTranslation { base, size: r.below(3) as u8, offset };
        let frame = t.frame();
        if let Ok(Some(p)) = catch(|| t.translate_addr(VirtAddr::new(0x1000))) {
            let exact = frame.start_address().as_u64() as u128 + offset as u128;
            if !phys_ok(p.as_u64()) || p.as_u64() as u128 != exact {
                rep.violation("Translate::translate_addr(provided)|hands-out-an-invalid-or-inexact-address", J::obj(vec![("frame", J::hex(frame.start_address().as_u64())), ("offset", J::hex(offset)), ("returned", J::hex(p.as_u64()))]));
                break;
            }
        }
    }
    rep.class("provided|Translate::translate_addr");
}

pub fn run(a: &Args, rep: &mut Report) {
    {
        let mut r0 = Rng::derive(a.seed, "c03-translate", a.shard);
        provided_translate_addr(rep, &mut r0);
    }
    let mut r = Rng::derive(a.seed, "c03", a.shard);
    // deterministic edge sweep first (every shard)
    for &e in gen::EDGES.iter() {
        for d in [0u64, 1, 2, 0xfff, 0x1000] {
            constructors(rep, e.wrapping_add(d), "edge+d", &mut r);
            constructors(rep, e.wrapping_sub(d), "edge-d", &mut r);
        }
    }
    for k in 0..64 {
        constructors(rep, 1u64 << k, "pow2", &mut r);
        constructors(rep, (1u64 << k).wrapping_sub(1), "pow2-1", &mut r);
        constructors(rep, !(1u64 << k), "walk0", &mut r);
    }
    let n = a.budget(3_000_000, 400_000_000);
    for i in 0..n {
        let (x, c) = gen::u64_edge(&mut r);
        constructors(rep, x, c, &mut r);
        if i < 3 {
            rep.sample(J::obj(vec![("kind", J::s("constructor-input")), ("x", J::hex(x)), ("class", J::s(c))]));
        }
    }
    // `--progs N` overrides the number of programs (the interpreted slices spend their small budget here)
    let progs = a.get_u64("progs", a.budget(60_000, 12_000_000));
    for _ in 0..progs {
        let len = 5 + r.below(46) as usize;
        program(rep, &mut r, len);
    }
    rep.count("programs", progs);
    rep.count("constructor_inputs", n);
}
