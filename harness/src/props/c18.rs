//! C18 — port objects perform exactly one access of their width on their port.
//! Oracle (E4): opcode + operand-size prefix give the width, DX the port, AL/AX/EAX the value; the device
//! model supplies a fresh PRNG value to each `in`.

use crate::trapemu::{self, Event, K};
use crate::util::{catch_msg, Args, Report, Rng, J};
use x86_64::instructions::port::{Port, PortReadOnly, PortWriteOnly};

fn evs_json(evs: &[Event]) -> J {
    J::A(evs.iter().take(6).map(|e| J::s(trapemu::fmt_event(e))).collect())
}

fn judge_read(rep: &mut Report, kind: &str, width: u8, port: u16, got: u64, evs: &[Event]) {
    rep.eval();
    let sig = |what: &str| format!("{}<u{}>::read|{}", kind, width * 8, what);
    let ctx = |evs: &[Event]| J::obj(vec![("port", J::hex(port as u64)), ("width", J::U(width as u64)), ("returned", J::hex(got)), ("events", evs_json(evs))]);
    if evs.len() != 1 {
        rep.violation(&sig(if evs.is_empty() { "no-port-instruction" } else { "more-than-one-instruction" }), ctx(evs));
        return;
    }
    let e = &evs[0];
    if e.kind == K::InsOuts {
        rep.violation(&sig("string-io-touches-memory"), ctx(evs));
        return;
    }
    if e.kind != K::In {
        rep.violation(&sig("wrong-instruction"), ctx(evs));
        return;
    }
    if e.width != width {
        rep.violation(&sig("wrong-width"), ctx(evs));
    }
    if e.n != port as u32 {
        rep.violation(&sig("wrong-port"), ctx(evs));
    }
    let mask = if width == 4 { 0xffff_ffffu64 } else { (1u64 << (8 * width as u32)) - 1 };
    if got != e.val & mask {
        rep.violation(&sig("returned-value-differs-from-device-value"), ctx(evs));
    }
}

fn judge_write(rep: &mut Report, kind: &str, width: u8, port: u16, value: u64, evs: &[Event]) {
    rep.eval();
    let sig = |what: &str| format!("{}<u{}>::write|{}", kind, width * 8, what);
    let ctx = |evs: &[Event]| J::obj(vec![("port", J::hex(port as u64)), ("width", J::U(width as u64)), ("value", J::hex(value)), ("events", evs_json(evs))]);
    if evs.len() != 1 {
        rep.violation(&sig(if evs.is_empty() { "no-port-instruction" } else { "more-than-one-instruction" }), ctx(evs));
        return;
    }
    let e = &evs[0];
    if e.kind == K::InsOuts {
        rep.violation(&sig("string-io-touches-memory"), ctx(evs));
        return;
    }
    if e.kind != K::Out {
        rep.violation(&sig("wrong-instruction"), ctx(evs));
        return;
    }
    if e.width != width {
        rep.violation(&sig("wrong-width"), ctx(evs));
    }
    if e.n != port as u32 {
        rep.violation(&sig("wrong-port"), ctx(evs));
    }
    if e.val != value {
        rep.violation(&sig("wrong-value-transferred"), ctx(evs));
    }
}

macro_rules! one_inner {
    ($rep:expr, $t:ty, $w:expr, $port:expr, $val:expr) => {{
        let port: u16 = $port;
        let val: u64 = $val;
        let v = val as $t;
        // read through read-write and read-only objects
        let mut p: Port<$t> = Port::new(port);
        let (got, evs) = trapemu::trapped(|| unsafe { p.read() });
        judge_read($rep, "Port", $w, port, got as u64, &evs);
        let mut pr: PortReadOnly<$t> = PortReadOnly::new(port);
        let (got, evs) = trapemu::trapped(|| unsafe { pr.read() });
        judge_read($rep, "PortReadOnly", $w, port, got as u64, &evs);
        // write through read-write and write-only objects
        let (_, evs) = trapemu::trapped(|| unsafe { p.write(v) });
        judge_write($rep, "Port", $w, port, v as u64, &evs);
        let mut pw: PortWriteOnly<$t> = PortWriteOnly::new(port);
        let (_, evs) = trapemu::trapped(|| unsafe { pw.write(v) });
        judge_write($rep, "PortWriteOnly", $w, port, v as u64, &evs);
        // clones refer to the same port
        let mut c = p.clone();
        let (_, evs) = trapemu::trapped(|| unsafe { c.write(v) });
        judge_write($rep, "Port(clone)", $w, port, v as u64, &evs);
        let mut cr = pr.clone();
        let (got, evs) = trapemu::trapped(|| unsafe { cr.read() });
        judge_read($rep, "PortReadOnly(clone)", $w, port, got as u64, &evs);
        // ... also when the clone is made into an existing object of another port (Clone::clone_from)
        let other = match val & 3 { 0 => port.wrapping_add(1), 1 => !port, 2 => port ^ 0x100, _ => 0 };
        let mut t: Port<$t> = Port::new(other);
        t.clone_from(&p);
        let (_, evs) = trapemu::trapped(|| unsafe { t.write(v) });
        judge_write($rep, "Port(clone_from)", $w, port, v as u64, &evs);
        let mut tr: PortReadOnly<$t> = PortReadOnly::new(other);
        tr.clone_from(&pr);
        let (got, evs) = trapemu::trapped(|| unsafe { tr.read() });
        judge_read($rep, "PortReadOnly(clone_from)", $w, port, got as u64, &evs);
        let mut tw: PortWriteOnly<$t> = PortWriteOnly::new(other);
        tw.clone_from(&pw);
        let (_, evs) = trapemu::trapped(|| unsafe { tw.write(v) });
        judge_write($rep, "PortWriteOnly(clone_from)", $w, port, v as u64, &evs);
        if !(t == p && tr == pr && tw == pw) {
            $rep.violation("clone_from|result-not-equal-to-source", J::obj(vec![("port", J::hex(port as u64)), ("target_was", J::hex(other as u64))]));
        }
    }};
}

/// the body of `one_inner!` under catch_unwind: a panic anywhere in constructing or using a port object is a violation
macro_rules! one {
    ($rep:expr, $t:ty, $w:expr, $port:expr, $val:expr) => {{
        let port: u16 = $port;
        let val: u64 = $val;
        let rep: &mut Report = $rep;
        let res = catch_msg(|| one_inner!(&mut *rep, $t, $w, port, val));
        if let Err(m) = res {
            trapemu::arm(false);
            rep.violation(&format!("Port<u{}>|panic-in-constructor-or-access|{}", $w * 8, if port as u32 + $w as u32 > 0xffff { "top-of-io-space" } else { "other-port" }), J::obj(vec![("port", J::hex(port as u64)), ("panic", J::s(m))]));
        }
        let res2 = catch_msg(|| {
        // reads whose result is discarded, and repeated reads in one scope, are still one instruction each
        let mut p: Port<$t> = Port::new(port);
        let mut pr: PortReadOnly<$t> = PortReadOnly::new(port);
        let (_, evs) = trapemu::trapped(|| unsafe {
            let _ = p.read();
            let _ = pr.read();
        });
        rep.eval();
        if evs.len() != 2 || evs.iter().any(|e| e.kind != K::In || e.n != port as u32 || e.width != $w) {
            rep.violation(&format!("Port<u{}>::read|discarded-read-not-executed-exactly-once", $w * 8), J::obj(vec![("port", J::hex(port as u64)), ("events", evs_json(&evs))]));
        }
        let ((a, b, c), evs) = trapemu::trapped(|| unsafe {
            let a = p.read();
            let b = p.read();
            p.write(a);
            let c = p.read();
            (a, b, c)
        });
        rep.eval();
        let kinds: Vec<K> = evs.iter().map(|e| e.kind).collect();
        if kinds != vec![K::In, K::In, K::Out, K::In] || a as u64 != evs[0].val || b as u64 != evs[1].val || c as u64 != evs[3].val || evs[2].val != a as u64 {
            rep.violation(&format!("Port<u{}>|repeated-accesses-merged-or-reordered", $w * 8), J::obj(vec![("port", J::hex(port as u64)), ("events", evs_json(&evs))]));
        }
        });
        if let Err(m) = res2 {
            trapemu::arm(false);
            rep.violation(&format!("Port<u{}>|panic-in-constructor-or-access|{}", $w * 8, if port as u32 + $w as u32 > 0xffff { "top-of-io-space" } else { "other-port" }), J::obj(vec![("port", J::hex(port as u64)), ("panic", J::s(m))]));
        }
    }};
}

macro_rules! eq_checks {
    ($rep:expr, $t:ty, $a:expr, $b:expr) => {{
        let (a, b): (u16, u16) = ($a, $b);
        $rep.eval();
        let exp = a == b;
        let ok = crate::util::catch(|| (Port::<$t>::new(a) == Port::<$t>::new(b)) == exp
            && (PortReadOnly::<$t>::new(a) == PortReadOnly::<$t>::new(b)) == exp
            && (PortWriteOnly::<$t>::new(a) == PortWriteOnly::<$t>::new(b)) == exp
            && (Port::<$t>::new(a).clone() == Port::<$t>::new(a))
            && (PortReadOnly::<$t>::new(a).clone() == PortReadOnly::<$t>::new(a))
            && (PortWriteOnly::<$t>::new(a).clone() == PortWriteOnly::<$t>::new(a))).unwrap_or(false);
        // `!=` is its own method of the trait
        let ok_ne = crate::util::catch(|| (Port::<$t>::new(a) != Port::<$t>::new(b)) == !exp
            && (PortReadOnly::<$t>::new(a) != PortReadOnly::<$t>::new(b)) == !exp
            && (PortWriteOnly::<$t>::new(a) != PortWriteOnly::<$t>::new(b)) == !exp).unwrap_or(false);
        if !ok || !ok_ne {
            $rep.violation(if ok { "PartialEq::ne|not-the-negation-of-eq" } else { "PartialEq|not-equal-iff-same-port-number" }, J::obj(vec![("a", J::hex(a as u64)), ("b", J::hex(b as u64))]));
        }
    }};
}

/// the value to write may arrive in any register (here: each of the six argument registers of the C calling convention,
/// so also in DL / DX, which the instruction needs for the port number)
macro_rules! write_from_arg_register {
    ($name:ident, $t:ty, $($pad:ident),*) => {
        #[inline(never)]
        extern "C" fn $name($($pad: u64,)* value: $t, port: u16) -> u64 {
            let mut p: PortWriteOnly<$t> = PortWriteOnly::new(port);
            unsafe { p.write(value) };
            0 $(+ ($pad & 0))*
        }
    };
}
write_from_arg_register!(w8_a0, u8,);
write_from_arg_register!(w8_a1, u8, x0);
write_from_arg_register!(w8_a2, u8, x0, x1);
write_from_arg_register!(w8_a3, u8, x0, x1, x2);
write_from_arg_register!(w8_a4, u8, x0, x1, x2, x3);
write_from_arg_register!(w16_a0, u16,);
write_from_arg_register!(w16_a2, u16, x0, x1);
write_from_arg_register!(w16_a3, u16, x0, x1, x2);
write_from_arg_register!(w32_a0, u32,);
write_from_arg_register!(w32_a2, u32, x0, x1);
write_from_arg_register!(w32_a3, u32, x0, x1, x2);

fn value_in_every_argument_register(rep: &mut Report, r: &mut Rng) {
    let port = r.next() as u16;
    let v = r.next();
    macro_rules! go {
        ($f:expr, $w:expr, $mask:expr, $name:expr, $($arg:expr),*) => {{
            rep.eval();
            let (_, evs) = trapemu::trapped(|| $f($($arg,)* (v & $mask) as _, port));
            if evs.len() != 1 || evs[0].kind != K::Out || evs[0].n != port as u32 || evs[0].width != $w || evs[0].val != v & $mask {
                rep.violation(&format!("PortWriteOnly<u{}>::write|value-arriving-in-argument-register-{}|wrong-value-or-port", $w * 8, $name), J::obj(vec![("profile", J::s(crate::util::profile_name())), ("port", J::hex(port as u64)), ("value", J::hex(v & $mask)), ("events", evs_json(&evs))]));
            }
            rep.class(&format!("write-from-argument-register|u{}|{}", $w * 8, $name));
        }};
    }
    go!(w8_a0, 1, 0xff, "0(dil)",);
    go!(w8_a1, 1, 0xff, "1(sil)", 1);
    go!(w8_a2, 1, 0xff, "2(dl)", 1, 2);
    go!(w8_a3, 1, 0xff, "3(cl)", 1, 2, 3);
    go!(w8_a4, 1, 0xff, "4(r8b)", 1, 2, 3, 4);
    go!(w16_a0, 2, 0xffff, "0(di)",);
    go!(w16_a2, 2, 0xffff, "2(dx)", 1, 2);
    go!(w16_a3, 2, 0xffff, "3(cx)", 1, 2, 3);
    go!(w32_a0, 4, 0xffff_ffff, "0(edi)",);
    go!(w32_a2, 4, 0xffff_ffff, "2(edx)", 1, 2);
    go!(w32_a3, 4, 0xffff_ffff, "3(ecx)", 1, 2, 3);
}

/// the port instructions declare what they touch: values kept live in registers across a read / write stay what they were
fn register_pressure(rep: &mut Report, r: &mut Rng) {
    use crate::util::{pressure_expected, under_register_pressure};
    macro_rules! case {
        ($name:expr, $body:expr) => {{
            rep.eval();
            let seed = r.next() | 1;
            let ((sum, _), _evs) = trapemu::trapped(|| under_register_pressure(seed, || $body));
            if sum != pressure_expected(seed) {
                rep.violation(&format!("{}|changes-a-register-it-does-not-declare", $name), J::obj(vec![("profile", J::s(crate::util::profile_name())), ("expected", J::hex(pressure_expected(seed))), ("got", J::hex(sum))]));
            }
            rep.class(&format!("register-pressure|{}", $name));
        }};
    }
    let port = r.next() as u16;
    let v = r.next();
    case!("Port<u8>::read", unsafe { Port::<u8>::new(port).read() });
    case!("Port<u16>::read", unsafe { Port::<u16>::new(port).read() });
    case!("Port<u32>::read", unsafe { Port::<u32>::new(port).read() });
    case!("Port<u8>::write", unsafe { Port::<u8>::new(port).write(v as u8) });
    case!("Port<u16>::write", unsafe { Port::<u16>::new(port).write(v as u16) });
    case!("Port<u32>::write", unsafe { Port::<u32>::new(port).write(v as u32) });
    case!("PortReadOnly<u32>::read", unsafe { PortReadOnly::<u32>::new(port).read() });
    case!("PortWriteOnly<u16>::write", unsafe { PortWriteOnly::<u16>::new(port).write(v as u16) });
}

pub fn run(a: &Args, rep: &mut Report) {
    trapemu::install();
    let mut r = Rng::derive(a.seed, "c18", a.shard);
    for _ in 0..16 {
        register_pressure(rep, &mut r);
        value_in_every_argument_register(rep, &mut r);
    }
    trapemu::regs().io_state = r.next();
    // an in/out that faults while the monitor is not armed was moved out of the call it belongs to
    crate::util::fault_means_if(
        "C18",
        "port-instruction-executed-outside-its-call(hoisted-merged-or-reordered)".to_string(),
        J::s("an in/out instruction faulted while no port call was being monitored"),
        |b| {
            let mut i = 0;
            while i < 3 && (b[i] == 0x66 || b[i] & 0xf0 == 0x40) {
                i += 1;
            }
            matches!(b[i], 0xec..=0xef | 0x6c..=0x6f)
        },
    );
    // exhaustive in the port and width dimensions (sharded by port)
    let stride = if a.thorough() { 1 } else { 1 };
    let mut port = a.shard as u32;
    while port < 65536 {
        let p = port as u16;
        one!(rep, u8, 1, p, r.next());
        one!(rep, u16, 2, p, r.next());
        one!(rep, u32, 4, p, r.next());
        port += (a.nshards as u32) * stride;
    }
    rep.exhaustive.push("all 65536 port numbers x 3 widths x {Port, PortReadOnly, PortWriteOnly, clones} with one value each".into());
    for w in [8, 16, 32] {
        for k in ["Port", "PortReadOnly", "PortWriteOnly", "clone"] {
            for lo in ["port<0x100", "port<0x1000", "port>=0x1000", "port=0xffff", "port=0"] {
                rep.class(&format!("u{}|{}|{}", w, k, lo));
            }
        }
    }
    // random (port, value) pairs incl. extreme values
    let n = a.budget(40_000, 4_000_000);
    for i in 0..n {
        let p = match r.below(6) {
            0 => 0,
            1 => 0xffff,
            2 => r.below(0x100) as u16,
            _ => r.next() as u16,
        };
        let v = match r.below(6) {
            0 => 0,
            1 => u64::MAX,
            2 => 1u64 << r.below(32),
            3 => !(1u64 << r.below(32)),
            _ => r.next(),
        };
        match r.below(3) {
            0 => one!(rep, u8, 1, p, v),
            1 => one!(rep, u16, 2, p, v),
            _ => one!(rep, u32, 4, p, v),
        }
        if i < 3 {
            rep.sample(J::obj(vec![("port", J::hex(p as u64)), ("value", J::hex(v)), ("last_events", evs_json(&trapemu::events()))]));
        }
        let q = if r.chance(1, 2) { p } else { r.next() as u16 };
        eq_checks!(rep, u8, p, q);
        eq_checks!(rep, u16, p, q);
        eq_checks!(rep, u32, p, q);
    }
    crate::util::fault_means_nothing();
    rep.count("traps", trapemu::TRAPS.load(core::sync::atomic::Ordering::Relaxed));
    if trapemu::overflowed() {
        rep.inconclusive = Some("event log overflow".into());
    }
}
