//! C14 — GDT contents, selectors and limit always agree.
//! Oracle: a shadow Vec<u64> over random append histories for several capacities; operand of the trapped lgdt.

use crate::trapemu::{self, K};
use crate::util::{catch, Args, Report, Rng, J};
use x86_64::structures::gdt::{Descriptor, DescriptorFlags, GlobalDescriptorTable};

fn rand_desc(r: &mut Rng) -> Descriptor {
    let lo = match r.below(5) {
        0 => *r.pick(&[DescriptorFlags::KERNEL_CODE64.bits(), DescriptorFlags::KERNEL_DATA.bits(), DescriptorFlags::USER_CODE64.bits(), DescriptorFlags::USER_DATA.bits(), DescriptorFlags::USER_CODE32.bits(), DescriptorFlags::KERNEL_CODE32.bits()]),
        1 => 0,
        2 => u64::MAX,
        _ => r.next(),
    };
    // vary the DPL explicitly
    let lo = if r.chance(1, 2) { (lo & !(3 << 45)) | (r.below(4) << 45) } else { lo };
    if r.chance(1, 3) {
        Descriptor::SystemSegment(lo, if r.chance(1, 3) { 0 } else { r.next() })
    } else {
        Descriptor::UserSegment(lo)
    }
}

fn raw_entries<const MAX: usize>(g: &GlobalDescriptorTable<MAX>) -> Vec<u64> {
    g.entries().iter().map(|e| e.raw()).collect()
}

fn check_state<const MAX: usize>(rep: &mut Report, g: &GlobalDescriptorTable<MAX>, shadow: &[u64], log: &[J], what: &str) -> bool {
    // the accessors themselves are under test: a panic in them is a finding about the table, not a harness error
    let raw = match catch(|| raw_entries(g)) {
        Ok(r) => r,
        Err(()) => {
            rep.violation(&format!("{}|entries()-panicked", what), J::obj(vec![("max", J::U(MAX as u64)), ("used", J::U(shadow.len() as u64))]));
            return false;
        }
    };
    let limit = match catch(|| g.limit()) {
        Ok(l) => l,
        Err(()) => {
            rep.violation(&format!("{}|limit()-panicked", what), J::obj(vec![("max", J::U(MAX as u64)), ("used", J::U(shadow.len() as u64))]));
            return false;
        }
    };
    let ctx = || J::obj(vec![("max", J::U(MAX as u64)), ("ops", J::A(log.iter().rev().take(10).rev().cloned().collect())), ("expected", J::A(shadow.iter().take(12).map(|&x| J::hex(x)).collect())), ("entries", J::A(raw.iter().take(12).map(|&x| J::hex(x)).collect()))]);
    if raw != shadow {
        let kind = if raw.first() != Some(&0) { "null-descriptor-missing" } else if raw.len() != shadow.len() { "wrong-number-of-used-slots" } else { "entries-differ-from-appended-descriptors" };
        rep.violation(&format!("{}|{}", what, kind), ctx());
        return false;
    }
    if limit as usize != 8 * shadow.len() - 1 {
        rep.violation(&format!("{}|limit-is-not-8n-1", what), J::obj(vec![("limit", J::U(limit as u64)), ("used", J::U(shadow.len() as u64))]));
        return false;
    }
    if shadow.len() > MAX {
        rep.violation(&format!("{}|grew-beyond-capacity", what), ctx());
        return false;
    }
    true
}

fn history<const MAX: usize>(rep: &mut Report, r: &mut Rng) {
    let mut g: Box<GlobalDescriptorTable<MAX>> = Box::new(GlobalDescriptorTable::<MAX>::empty());
    let mut shadow: Vec<u64> = vec![0];
    let mut log: Vec<J> = Vec::new();
    if !check_state(rep, &g, &shadow, &log, "empty") {
        return;
    }
    let steps = if MAX > 100 { MAX as u64 + 5 } else { (MAX as u64 + 3) * 2 };
    let mut panics = 0;
    for _ in 0..steps {
        rep.eval();
        // now and then the table is overwritten with a copy of another one (shorter, longer or equal): afterwards it is
        // that table, and appending goes on from there
        if r.chance(1, if MAX > 100 { 2000 } else { 10 }) {
            let len = match r.below(4) {
                0 => 1,
                1 => shadow.len(),
                2 => 1 + r.below(shadow.len() as u64) as usize,
                _ => 1 + r.below(MAX as u64) as usize,
            };
            let mut v: Vec<u64> = (0..len).map(|_| if r.chance(1, 4) { 0 } else { r.next() }).collect();
            v[0] = 0;
            log.push(J::s(format!("clone_from(table with {} entries)", len)));
            let ok = catch(|| {
                let other = Box::new(GlobalDescriptorTable::<MAX>::from_raw_entries(&v));
                g.clone_from(&other);
            });
            if ok.is_err() {
                rep.violation("clone_from|panicked", J::obj(vec![("max", J::U(MAX as u64)), ("len", J::U(len as u64))]));
                return;
            }
            shadow = v;
            if !check_state(rep, &g, &shadow, &log, "clone_from") {
                return;
            }
            rep.class(&format!("max={}|clone_from|{}", MAX, if len < 3 { "short" } else { "long" }));
        }
        let d = if MAX > 100 && shadow.len() + 8 < MAX && r.chance(9, 10) { Descriptor::UserSegment(r.next()) } else { rand_desc(r) };
        let (need, lo) = match d {
            Descriptor::UserSegment(v) => (1, v),
            Descriptor::SystemSegment(v, _) => (2, v),
        };
        log.push(J::s(format!("append({:x?})", d)));
        let fits = shadow.len() + need <= MAX;
        let before = shadow.clone();
        let res = catch(|| g.append(d));
        match res {
            Ok(sel) => {
                if !fits {
                    rep.violation("append|accepted-descriptor-that-does-not-fit", J::obj(vec![("max", J::U(MAX as u64)), ("used", J::U(before.len() as u64)), ("needs", J::U(need as u64))]));
                    return;
                }
                let first = shadow.len();
                match d {
                    Descriptor::UserSegment(v) => shadow.push(v),
                    Descriptor::SystemSegment(a, b) => {
                        shadow.push(a);
                        shadow.push(b);
                    }
                }
                let dpl = ((lo >> 45) & 3) as u16;
                let exp = ((first as u16) << 3) | dpl;
                if sel.0 != exp {
                    let what = if sel.0 >> 3 != first as u16 { "selector-index-is-not-first-slot" } else if sel.0 & 4 != 0 { "selector-refers-to-ldt" } else { "selector-rpl-differs-from-descriptor-dpl" };
                    rep.violation(&format!("append|{}", what), J::obj(vec![("max", J::U(MAX as u64)), ("selector", J::hex(sel.0 as u64)), ("expected", J::hex(exp as u64)), ("descriptor_low", J::hex(lo))]));
                    return;
                }
                // the accessors of the returned selector say the same as its raw bits
                if catch(|| sel.index() != first as u16 || sel.rpl() as u16 != dpl) != Ok(false) {
                    rep.violation("append|selector-accessors-disagree-with-first-slot-and-dpl", J::obj(vec![("max", J::U(MAX as u64)), ("selector", J::hex(sel.0 as u64)), ("first_slot", J::U(first as u64)), ("index()", J::s(format!("{:?}", catch(|| sel.index())))), ("rpl()", J::s(format!("{:?}", catch(|| sel.rpl()))))]));
                    return;
                }
                if d.dpl() as u16 != dpl {
                    rep.violation("Descriptor::dpl|not-bits-45-46", J::hex(lo));
                }
                rep.class(&format!("max={}|append-{}|dpl={}|ok", MAX, if need == 1 { "user" } else { "system" }, dpl));
            }
            Err(()) => {
                panics += 1;
                if fits {
                    rep.violation("append|panicked-although-descriptor-fits", J::obj(vec![("max", J::U(MAX as u64)), ("used", J::U(before.len() as u64)), ("needs", J::U(need as u64))]));
                    return;
                }
                rep.class(&format!("max={}|append-{}|free={}|panic", MAX, if need == 1 { "user" } else { "system" }, MAX - before.len()));
            }
        }
        if !check_state(rep, &g, &shadow, &log, "append") {
            return;
        }
        if panics > 4 {
            break;
        }
    }
    // clone agrees
    match catch(|| {
        let c = g.clone();
        raw_entries(&c) != shadow || c.limit() != g.limit()
    }) {
        Ok(false) => {}
        Ok(true) => rep.violation("clone|differs", J::Null),
        Err(()) => rep.violation("clone|panicked", J::U(MAX as u64)),
    }
    if cfg!(miri) {
        return;
    }
    // loading hands the CPU the table's own address with that limit
    let base = g.entries().as_ptr() as u64;
    // `load` wants a `&'static`; the box outlives both calls
    let st: &'static GlobalDescriptorTable<MAX> = unsafe { &*(&*g as *const GlobalDescriptorTable<MAX>) };
    for which in ["load_unsafe", "load"] {
        let (res, evs) = trapemu::trapped(|| catch(|| if which == "load" { st.load() } else { unsafe { g.load_unsafe() } }));
        rep.eval();
        if res.is_err() {
            rep.violation(&format!("{}|panicked", which), J::obj(vec![("max", J::U(MAX as u64)), ("used", J::U(shadow.len() as u64))]));
            continue;
        }
        if evs.len() != 1 || evs[0].kind != K::Lgdt {
            rep.violation(&format!("{}|not-exactly-one-lgdt", which), J::A(evs.iter().map(|e| J::s(trapemu::fmt_event(e))).collect()));
        } else if evs[0].n as usize != 8 * shadow.len() - 1 || evs[0].val != base {
            rep.violation(&format!("{}|wrong-limit-or-base", which), J::obj(vec![("limit", J::U(evs[0].n as u64)), ("expected_limit", J::U(8 * shadow.len() as u64 - 1)), ("base", J::hex(evs[0].val)), ("table", J::hex(base))]));
        }
    }
    // loading hands the table over; it does not rewrite it
    if !check_state(rep, &g, &shadow, &log, "after-load") {
        return;
    }
    // a table that grew after it was loaded is loaded again with its new limit - also when the CPU already holds its
    // address (single-step mode: `sgdt` reports the emulated GDTR that the emulated `lgdt` loaded)
    if shadow.len() < MAX && MAX <= 9 {
        trapemu::regs().emulate_sgdt = true;
        let (_, ev1) = trapemu::trapped(|| {
            trapemu::step_begin();
            unsafe { g.load_unsafe() };
            trapemu::step_end();
        });
        let grew = catch(|| g.append(Descriptor::UserSegment(DescriptorFlags::KERNEL_DATA.bits()))).is_ok();
        if grew {
            shadow.push(DescriptorFlags::KERNEL_DATA.bits());
        }
        let (_, ev2) = trapemu::trapped(|| {
            trapemu::step_begin();
            unsafe { g.load_unsafe() };
            trapemu::step_end();
        });
        trapemu::regs().emulate_sgdt = false;
        rep.eval();
        let l1: Vec<&trapemu::Event> = ev1.iter().filter(|e| e.kind == K::Lgdt).collect();
        let l2: Vec<&trapemu::Event> = ev2.iter().filter(|e| e.kind == K::Lgdt).collect();
        if l1.len() != 1 || l2.len() != 1 || l2[0].n as usize != 8 * shadow.len() - 1 || l2[0].val != base {
            rep.violation("load_unsafe|second-load-of-a-grown-table|CPU-not-given-the-new-limit", J::obj(vec![("max", J::U(MAX as u64)), ("used_now", J::U(shadow.len() as u64)), ("first_load", J::A(ev1.iter().map(|e| J::s(trapemu::fmt_event(e))).collect())), ("second_load", J::A(ev2.iter().map(|e| J::s(trapemu::fmt_event(e))).collect()))]));
        }
        rep.class(&format!("max={}|load-append-load", MAX));
    }
    if rep.want_sample() {
        rep.sample(J::obj(vec![("max", J::U(MAX as u64)), ("ops", J::A(log.iter().take(8).cloned().collect())), ("final_entries", J::A(shadow.iter().take(10).map(|&x| J::hex(x)).collect())), ("limit", J::U(g.limit() as u64))]));
    }
}

fn from_raw<const MAX: usize>(rep: &mut Report, r: &mut Rng) {
    rep.eval();
    let len = match r.below(5) {
        0 => 0,
        1 => MAX,
        2 => MAX + 1,
        _ => r.below(MAX as u64 + 3) as usize,
    };
    let len = len.min(9000);
    let mut v: Vec<u64> = (0..len).map(|_| r.next()).collect();
    if len > 0 && r.chance(3, 4) {
        v[0] = 0;
    }
    // trailing null entries are entries (the upper half of a TSS descriptor below 4 GiB is one): they count
    if len > 1 && len <= MAX && r.chance(1, 3) {
        let k = 1 + r.below(len as u64 - 1) as usize;
        for x in v[k..].iter_mut() {
            *x = 0;
        }
    }
    // an over-long slice is over-long whatever its tail holds: also null entries beyond the capacity
    if len > MAX && r.chance(1, 2) {
        for x in v[MAX..].iter_mut() {
            *x = 0;
        }
    }
    let should_panic = len == 0 || v[0] != 0 || len > MAX;
    let res = catch(|| Box::new(GlobalDescriptorTable::<MAX>::from_raw_entries(&v)));
    match res {
        Ok(g) => {
            if should_panic {
                rep.violation("from_raw_entries|accepted-documented-invalid-slice", J::obj(vec![("max", J::U(MAX as u64)), ("len", J::U(len as u64)), ("first", v.first().map(|&x| J::hex(x)).unwrap_or(J::Null))]));
            } else if catch(|| raw_entries(&g) != v || g.limit() as usize != 8 * len - 1) != Ok(false) {
                rep.violation("from_raw_entries|does-not-reproduce-input", J::obj(vec![("max", J::U(MAX as u64)), ("len", J::U(len as u64))]));
            }
        }
        Err(()) => {
            if !should_panic {
                rep.violation("from_raw_entries|rejected-valid-slice", J::obj(vec![("max", J::U(MAX as u64)), ("len", J::U(len as u64))]));
            }
        }
    }
    rep.class(&format!("max={}|from_raw|len={}|panic={}", MAX, if len == 0 { "0" } else if len == MAX { "max" } else if len > MAX { ">max" } else { "<max" }, should_panic));
}

pub fn run(a: &Args, rep: &mut Report) {
    #[cfg(not(miri))]
    trapemu::install();
    let mut r = Rng::derive(a.seed, "c14", a.shard);
    let n = a.budget(10_000, 1_000_000);
    for i in 0..n {
        history::<1>(rep, &mut r);
        history::<2>(rep, &mut r);
        history::<3>(rep, &mut r);
        history::<8>(rep, &mut r);
        history::<9>(rep, &mut r);
        from_raw::<1>(rep, &mut r);
        from_raw::<2>(rep, &mut r);
        from_raw::<3>(rep, &mut r);
        from_raw::<8>(rep, &mut r);
        from_raw::<9>(rep, &mut r);
        if i % 200 == 0 && !cfg!(miri) {
            history::<8192>(rep, &mut r);
            from_raw::<8192>(rep, &mut r);
        }
    }
    // the default table is MAX = 8 and starts with the null descriptor
    let dd: GlobalDescriptorTable = Default::default();
    if catch(|| raw_entries(&dd) != vec![0] || dd.limit() != 7) != Ok(false) {
        rep.violation("Default::default|not-just-the-null-descriptor", J::Null);
    }
    let d = GlobalDescriptorTable::new();
    if catch(|| raw_entries(&d) != vec![0] || d.limit() != 7) != Ok(false) {
        rep.violation("new|not-just-the-null-descriptor", J::Null);
    }
}
