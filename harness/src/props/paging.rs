//! Paging engine shared by C01, C02, C09, C10 (and the token part of C11): random call histories on the real
//! mapper implementations over simulated physical memory; after every call the raw tables are dumped by the
//! hardware-style walker and compared with the reference model, all frames are byte-diffed, the allocator log
//! is judged and the translate* entry points are compared with the walker on a probe set.

use crate::hwwalk::{self, Dump, RNode, Walk, ADDR, FLAGS, P, PS, U, W};
use crate::refmodel::{self, Applied, Exp, Fail, Model};
use crate::simphys::{Arena, ArenaAlloc, Policy, Role, State};
use crate::util::{catch_msg, Args, Report, Rng, J};
use std::collections::{BTreeMap, BTreeSet};
use x86_64::structures::paging::mapper::{CleanUp, MappedFrame, MapToError, Mapper, TranslateResult, Translate};
use x86_64::structures::paging::page::PageRangeInclusive;
use x86_64::structures::paging::{MappedPageTable, OffsetPageTable, Page, PageSize, PageTableFlags, PhysFrame, Size1GiB, Size2MiB, Size4KiB};
#[cfg(not(miri))]
use x86_64::structures::paging::RecursivePageTable;
#[cfg(not(miri))]
use crate::softmmu::{PfEvent, SoftMmu};
#[cfg(miri)]
#[derive(Clone, Copy, Debug)]
pub struct PfEvent { pub va: u64, pub phys: u64, pub write: bool, pub is_table: bool, pub in_arena: bool, pub end_level: u8, pub rip: u64 }
use x86_64::{PhysAddr, VirtAddr};

#[derive(Clone, Copy, PartialEq, Eq, Debug)]
pub enum Kind {
    Mapped,
    Offset,
    Recursive,
}

impl Kind {
    pub fn name(self) -> &'static str {
        match self {
            Kind::Mapped => "MappedPageTable",
            Kind::Offset => "OffsetPageTable",
            Kind::Recursive => "RecursivePageTable",
        }
    }
}

#[derive(Clone, Debug, PartialEq)]
pub enum Op {
    Map { lvl: u8, page: u64, frame: u64, flags: u64, pflags: Option<u64> },
    IdentityMap { lvl: u8, frame: u64, flags: u64 },
    Unmap { lvl: u8, page: u64 },
    UpdateFlags { lvl: u8, page: u64, flags: u64 },
    SetParent { lvl: u8, n: u8, page: u64, flags: u64 },
    TranslatePage { lvl: u8, page: u64 },
    CleanUp,
    CleanRange { start: u64, end: u64 },
}

fn sz(lvl: u8) -> &'static str {
    match lvl {
        1 => "4K",
        2 => "2M",
        _ => "1G",
    }
}

impl Op {
    pub fn name(&self) -> String {
        match self {
            Op::Map { lvl, pflags, .. } => format!("{}<{}>", if pflags.is_some() { "map_to_with_table_flags" } else { "map_to" }, sz(*lvl)),
            Op::IdentityMap { lvl, .. } => format!("identity_map<{}>", sz(*lvl)),
            Op::Unmap { lvl, .. } => format!("unmap<{}>", sz(*lvl)),
            Op::UpdateFlags { lvl, .. } => format!("update_flags<{}>", sz(*lvl)),
            Op::SetParent { lvl, n, .. } => format!("set_flags_p{}_entry<{}>", n, sz(*lvl)),
            Op::TranslatePage { lvl, .. } => format!("translate_page<{}>", sz(*lvl)),
            Op::CleanUp => "clean_up".into(),
            Op::CleanRange { .. } => "clean_up_addr_range".into(),
        }
    }
    pub fn to_json(&self) -> J {
        match self {
            Op::Map { page, frame, flags, pflags, .. } => J::obj(vec![("op", J::s(self.name())), ("page", J::hex(*page)), ("frame", J::hex(*frame)), ("flags", J::hex(*flags)), ("parent_flags", pflags.map(J::hex).unwrap_or(J::Null))]),
            Op::IdentityMap { frame, flags, .. } => J::obj(vec![("op", J::s(self.name())), ("frame", J::hex(*frame)), ("flags", J::hex(*flags))]),
            Op::Unmap { page, .. } | Op::TranslatePage { page, .. } => J::obj(vec![("op", J::s(self.name())), ("page", J::hex(*page))]),
            Op::UpdateFlags { page, flags, .. } | Op::SetParent { page, flags, .. } => J::obj(vec![("op", J::s(self.name())), ("page", J::hex(*page)), ("flags", J::hex(*flags))]),
            Op::CleanUp => J::obj(vec![("op", J::s("clean_up"))]),
            Op::CleanRange { start, end } => J::obj(vec![("op", J::s("clean_up_addr_range")), ("start", J::hex(*start)), ("end", J::hex(*end))]),
        }
    }
}

#[derive(Clone, Debug, PartialEq)]
pub enum Out {
    MapOk { flush: u64 },
    MapErr(String),
    UnmapOk { frame: u64, flush: u64 },
    UnmapErr(String),
    FlagsOk { flush: u64 },
    FlagsErr(String),
    SetOk,
    SetErr(String),
    TpOk { frame: u64 },
    TpErr(String),
    Clean,
    Panic(String),
}

impl Out {
    pub fn short(&self) -> String {
        match self {
            Out::MapOk { .. } => "Ok".into(),
            Out::UnmapOk { .. } => "Ok".into(),
            Out::FlagsOk { .. } => "Ok".into(),
            Out::SetOk => "Ok".into(),
            Out::TpOk { .. } => "Ok".into(),
            Out::Clean => "done".into(),
            Out::MapErr(e) | Out::UnmapErr(e) | Out::FlagsErr(e) | Out::SetErr(e) | Out::TpErr(e) => format!("Err({})", e),
            Out::Panic(_) => "panic".into(),
        }
    }
    pub fn is_ok(&self) -> bool {
        matches!(self, Out::MapOk { .. } | Out::UnmapOk { .. } | Out::FlagsOk { .. } | Out::SetOk | Out::TpOk { .. } | Out::Clean)
    }
}

pub trait Sz: PageSize {
    const LVL: u8;
}
impl Sz for Size4KiB {
    const LVL: u8 = 1;
}
impl Sz for Size2MiB {
    const LVL: u8 = 2;
}
impl Sz for Size1GiB {
    const LVL: u8 = 3;
}

fn sx(x: u64) -> u64 {
    crate::gen::sign_extend48(x)
}

fn pf(bits: u64) -> PageTableFlags {
    PageTableFlags::from_bits_truncate(bits)
}

/// `given` is the frame the caller passed in: PageAlreadyMapped hands exactly that frame back (it is the caller's to reuse)
fn map_err_name<S: PageSize>(e: MapToError<S>, given: PhysFrame<S>) -> String {
    match e {
        MapToError::FrameAllocationFailed => "FrameAllocationFailed".into(),
        MapToError::ParentEntryHugePage => "ParentEntryHugePage".into(),
        MapToError::PageAlreadyMapped(f) if f == given => "PageAlreadyMapped".into(),
        MapToError::PageAlreadyMapped(f) => format!("PageAlreadyMapped(returns {:#x}, not the caller's frame)", f.start_address().as_u64()),
    }
}

fn exec_sz<S: Sz, M: Mapper<S>>(m: &mut M, op: &Op, alloc: &mut ArenaAlloc) -> Out {
    use x86_64::structures::paging::mapper::{FlagUpdateError, TranslateError, UnmapError};
    let pg = |va: u64| Page::<S>::containing_address(VirtAddr::new(sx(va)));
    let fr = |pa: u64| PhysFrame::<S>::containing_address(PhysAddr::new(pa));
    let fe = |e: FlagUpdateError| match e {
        FlagUpdateError::PageNotMapped => "PageNotMapped".to_string(),
        FlagUpdateError::ParentEntryHugePage => "ParentEntryHugePage".to_string(),
    };
    match op {
        Op::Map { page, frame, flags, pflags, .. } => {
            let r = unsafe {
                match pflags {
                    Some(p) => m.map_to_with_table_flags(pg(*page), fr(*frame), pf(*flags), pf(*p), alloc),
                    None => m.map_to(pg(*page), fr(*frame), pf(*flags), alloc),
                }
            };
            match r {
                Ok(f) => {
                    let p = f.page().start_address().as_u64();
                    f.ignore();
                    Out::MapOk { flush: p }
                }
                Err(e) => Out::MapErr(map_err_name(e, fr(*frame))),
            }
        }
        Op::IdentityMap { frame, flags, .. } => match unsafe { m.identity_map(fr(*frame), pf(*flags), alloc) } {
            Ok(f) => {
                let p = f.page().start_address().as_u64();
                f.ignore();
                Out::MapOk { flush: p }
            }
            Err(e) => Out::MapErr(map_err_name(e, fr(*frame))),
        },
        Op::Unmap { page, .. } => match m.unmap(pg(*page)) {
            Ok((f, fl)) => {
                let p = fl.page().start_address().as_u64();
                fl.ignore();
                Out::UnmapOk { frame: f.start_address().as_u64(), flush: p }
            }
            Err(e) => Out::UnmapErr(match e {
                UnmapError::ParentEntryHugePage => "ParentEntryHugePage".into(),
                UnmapError::PageNotMapped => "PageNotMapped".into(),
                UnmapError::InvalidFrameAddress(a) => format!("InvalidFrameAddress({:#x})", a.as_u64()),
            }),
        },
        Op::UpdateFlags { page, flags, .. } => match unsafe { m.update_flags(pg(*page), pf(*flags)) } {
            Ok(f) => {
                let p = f.page().start_address().as_u64();
                f.ignore();
                Out::FlagsOk { flush: p }
            }
            Err(e) => Out::FlagsErr(fe(e)),
        },
        Op::SetParent { n, page, flags, .. } => {
            let r = unsafe {
                match n {
                    4 => m.set_flags_p4_entry(pg(*page), pf(*flags)),
                    3 => m.set_flags_p3_entry(pg(*page), pf(*flags)),
                    _ => m.set_flags_p2_entry(pg(*page), pf(*flags)),
                }
            };
            match r {
                Ok(f) => {
                    f.ignore();
                    Out::SetOk
                }
                Err(e) => Out::SetErr(fe(e)),
            }
        }
        Op::TranslatePage { page, .. } => match m.translate_page(pg(*page)) {
            Ok(f) => Out::TpOk { frame: f.start_address().as_u64() },
            Err(e) => Out::TpErr(match e {
                TranslateError::PageNotMapped => "PageNotMapped".into(),
                TranslateError::ParentEntryHugePage => "ParentEntryHugePage".into(),
                TranslateError::InvalidFrameAddress(a) => format!("InvalidFrameAddress({:#x})", a.as_u64()),
            }),
        },
        _ => unreachable!(),
    }
}

fn exec_on<M>(m: &mut M, op: &Op, alloc: &mut ArenaAlloc) -> Out
where
    M: Mapper<Size4KiB> + Mapper<Size2MiB> + Mapper<Size1GiB> + CleanUp,
{
    match op {
        Op::CleanUp => {
            unsafe { m.clean_up(alloc) };
            Out::Clean
        }
        Op::CleanRange { start, end } => {
            let r = PageRangeInclusive { start: Page::<Size4KiB>::containing_address(VirtAddr::new(sx(*start))), end: Page::<Size4KiB>::containing_address(VirtAddr::new(sx(*end))) };
            unsafe { m.clean_up_addr_range(r, alloc) };
            Out::Clean
        }
        Op::Map { lvl, .. } | Op::IdentityMap { lvl, .. } | Op::Unmap { lvl, .. } | Op::UpdateFlags { lvl, .. } | Op::SetParent { lvl, .. } | Op::TranslatePage { lvl, .. } => match lvl {
            1 => exec_sz::<Size4KiB, M>(m, op, alloc),
            2 => exec_sz::<Size2MiB, M>(m, op, alloc),
            _ => exec_sz::<Size1GiB, M>(m, op, alloc),
        },
    }
}

pub struct Env {
    pub kind: Kind,
    /// boxed: the software MMU and the allocator objects keep raw pointers to it
    pub arena: Box<Arena>,
    pub model: Model,
    pub offset: u64,
    /// history so far (for replay / evidence)
    pub history: Vec<J>,
    pub data_frames: Vec<u64>,
    pub desc: String,
    /// RecursivePageTable: recursive index and software MMU
    pub rec: Option<u16>,
    pub rec_unchecked: bool,
    #[cfg(not(miri))]
    pub mmu: Option<Box<SoftMmu>>,
    /// page faults resolved by the software MMU during the last mapper call
    pub last_pf: std::cell::RefCell<Vec<PfEvent>>,
    /// properties whose violation ends the history (the property the command is about); violations of other
    /// properties de-synchronise the model: the history goes on with the model-independent monitors only
    pub focus: Vec<&'static str>,
    pub desynced: bool,
    /// the rest of a scripted episode (see gen_op)
    pub pending: std::cell::RefCell<std::collections::VecDeque<Op>>,
    /// extended-domain history that also produces huge entries with unaligned addresses
    pub corrupt: bool,
    pub ext: bool,
    pub fail_all_next: bool,
    pub step_props: std::cell::RefCell<Vec<String>>,
}

macro_rules! with_mapper {
    ($env:expr, |$m:ident| $body:expr) => {
        match $env.kind {
            Kind::Mapped => {
                let mut $m = unsafe { MappedPageTable::new(&mut *$env.arena.root_ptr(), $env.arena.mapping()) };
                $body
            }
            Kind::Offset => {
                let mut $m = unsafe { OffsetPageTable::new(&mut *$env.arena.root_ptr(), VirtAddr::new($env.offset)) };
                $body
            }
            #[cfg(not(miri))]
            Kind::Recursive => {
                let l4 = $env.mmu.as_ref().unwrap().l4_addr();
                // either the checked constructor on the reference at [R,R,R,R], or new_unchecked on another view of the
                // active level-4 table (its contract only asks for the active table and the recursive index)
                let mut $m = if $env.rec_unchecked {
                    unsafe { RecursivePageTable::new_unchecked(&mut *$env.arena.root_ptr(), x86_64::structures::paging::PageTableIndex::new($env.rec.unwrap())) }
                } else {
                    RecursivePageTable::new(unsafe { &mut *(l4 as *mut x86_64::structures::paging::PageTable) }).expect("RecursivePageTable::new refused a recursive, active table")
                };
                $body
            }
            #[cfg(miri)]
            Kind::Recursive => unreachable!(),
        }
    };
}

impl Env {
    /// bracket a call into the mapper: arm the trap monitor / software MMU for the recursive mapper, flush its TLB after
    fn bracket<T>(&self, f: impl FnOnce() -> T) -> T {
        #[cfg(not(miri))]
        if self.kind == Kind::Recursive {
            crate::trapemu::regs().cr[3] = self.arena.root_phys() | 0x18; // low bits must be ignored by `new`
            let was = crate::trapemu::nevents();
            let _ = was;
            crate::trapemu::arm(true);
            let r = f();
            crate::trapemu::arm(false);
            // the mapper's references are gone: drop the on-demand pages (TLB flush) and keep the fault log
            let m = self.mmu.as_ref().unwrap();
            let mp = &**m as *const SoftMmu as *mut SoftMmu;
            let log = unsafe {
                (*mp).flush();
                (*mp).take_log()
            };
            self.last_pf.borrow_mut().extend(log);
            return r;
        }
        f()
    }
    pub fn exec(&self, op: &Op) -> Out {
        let mut alloc = self.arena.allocator();
        crate::util::fault_means(
            self.fault_prop(),
            format!("{}|{}|fatal-fault-in-mapper-code(access-outside-simulated-physical-memory)", self.kind.name(), op.name()),
            J::obj(vec![("impl", J::s(self.kind.name())), ("env", J::s(self.desc.clone())), ("op", op.to_json()), ("history_tail", J::A(self.history[self.history.len().saturating_sub(30)..].to_vec()))]),
        );
        let r = self.bracket(|| catch_msg(|| with_mapper!(self, |m| exec_on(&mut m, op, &mut alloc))));
        crate::util::fault_means_nothing();
        match r {
            Ok(o) => o,
            Err(msg) => Out::Panic(msg),
        }
    }
    /// a wild dereference by the recursive mapper is, in the C20 command, a wrong recursive address; otherwise C09
    fn fault_prop(&self) -> &'static str {
        if self.focus.contains(&"C20") {
            "C20"
        } else {
            "C09"
        }
    }
    fn declare_probe_fault(&self, what: &str, va: u64) {
        crate::util::fault_means(
            self.fault_prop(),
            format!("{}|{}|fatal-fault-in-mapper-code(access-outside-simulated-physical-memory)", self.kind.name(), what),
            J::obj(vec![("impl", J::s(self.kind.name())), ("env", J::s(self.desc.clone())), ("probe_address", J::hex(va)), ("history_tail", J::A(self.history[self.history.len().saturating_sub(30)..].to_vec()))]),
        );
    }
    pub fn translate(&self, va: u64) -> Result<TranslateResult, String> {
        self.declare_probe_fault("translate", va);
        self.bracket(|| catch_msg(|| with_mapper!(self, |m| m.translate(VirtAddr::new(va)))))
    }
    pub fn translate_addr(&self, va: u64) -> Result<Option<u64>, String> {
        self.declare_probe_fault("translate_addr", va);
        self.bracket(|| catch_msg(|| with_mapper!(self, |m| m.translate_addr(VirtAddr::new(va)).map(|p| p.as_u64()))))
    }
    pub fn translate_page(&self, va: u64, lvl: u8) -> Out {
        self.exec(&Op::TranslatePage { lvl, page: va })
    }
}

/// two raw dumps describe the same hierarchy up to the physical addresses chosen for the tables
fn same_hierarchy(a: &BTreeMap<u16, RNode>, b: &BTreeMap<u16, RNode>, path: &mut Vec<u16>) -> Result<(), String> {
    for k in a.keys().chain(b.keys()) {
        path.push(*k);
        let r = match (a.get(k), b.get(k)) {
            (Some(RNode::Table { raw: ra, kids: ka, .. }), Some(RNode::Table { raw: rb, kids: kb, .. })) => {
                if ra & FLAGS != rb & FLAGS {
                    Err(format!("table entry at {:?}: flags {:#x} vs {:#x}", path, ra & FLAGS, rb & FLAGS))
                } else {
                    same_hierarchy(ka, kb, path)
                }
            }
            (Some(x), Some(y)) if x == y => Ok(()),
            (x, y) => Err(format!("entry at {:?}: {:x?} vs {:x?}", path, x.map(short_node), y.map(short_node))),
        };
        path.pop();
        r?;
    }
    Ok(())
}

fn short_node(n: &RNode) -> String {
    match n {
        RNode::Leaf { raw } => format!("Leaf({:#x})", raw),
        RNode::Table { raw, .. } => format!("Table({:#x})", raw),
        RNode::Dangling { raw } => format!("Dangling({:#x})", raw),
        RNode::Garbage { raw } => format!("Garbage({:#x})", raw),
    }
}

/// up to 12 present leaves of a raw dump as (virtual address, physical address, size) for the in-callback watch
fn watch_list(d: &Dump, st: &State, root: u64) -> Vec<(u64, u64, u64)> {
    fn rec(k: &BTreeMap<u16, RNode>, level: u8, base: u64, out: &mut Vec<u64>) {
        for (&i, n) in k.iter() {
            let b = base | ((i as u64) << (12 + 9 * (level as u32 - 1)));
            match n {
                RNode::Leaf { .. } => out.push(b),
                RNode::Table { kids, .. } => rec(kids, level - 1, b, out),
                _ => {}
            }
        }
    }
    let mut vas = Vec::new();
    rec(&d.kids, 4, 0, &mut vas);
    let step = (vas.len() / 12).max(1);
    vas.iter().step_by(step).take(12).filter_map(|&va| match hwwalk::walk(st, root, sx(va)) { Walk::Mapped { pa, size, .. } => Some((sx(va), pa, size)), _ => None }).collect()
}

/// a frame handed to the deallocator belongs to the allocator from that moment: what the deallocator left in it (here: a
/// poison pattern) is still there when the call returns, unless the same call was given the frame again
fn released_frames_untouched(env: &Env, op: &Op, rep: &mut Report) {
    let st = env.arena.st();
    let kname = env.kind.name();
    for (i, copy) in st.poison_copy.iter() {
        if st.role[*i] != Role::Free {
            continue;
        }
        if let Some(k) = (0..512).find(|&k| st.read(*i, k) != copy[k]) {
            let ph = st.phys[*i];
            viol(rep, env, "C09", format!("{}|{}|wrote-to-a-frame-after-handing-it-to-the-deallocator", kname, op.name()), op, vec![("frame", J::hex(ph)), ("slot", J::U(k as u64)), ("left_by_deallocator", J::hex(copy[k])), ("found", J::hex(st.read(*i, k))), ("profile", J::s(crate::util::profile_name()))]);
            viol(rep, env, "C10", format!("{}|{}|wrote-to-a-frame-after-handing-it-to-the-deallocator", kname, op.name()), op, vec![("frame", J::hex(ph)), ("slot", J::U(k as u64))]);
            break;
        }
    }
}

/// the accessors of the three mappers hand out the table / parameters the mapper was built on
fn accessors(env: &Env, rep: &mut Report) {
    let root = env.arena.root_ptr() as usize;
    let res: Result<Vec<(&'static str, usize, usize)>, String> = env.bracket(|| {
        catch_msg(|| match env.kind {
            Kind::Mapped => {
                let mut m = unsafe { MappedPageTable::new(&mut *env.arena.root_ptr(), env.arena.mapping()) };
                let a = m.level_4_table() as *const _ as usize;
                let b = m.level_4_table_mut() as *mut _ as usize;
                let _ = m.page_table_frame_mapping();
                vec![("level_4_table", a, root), ("level_4_table_mut", b, root)]
            }
            Kind::Offset => {
                let mut m = unsafe { OffsetPageTable::new(&mut *env.arena.root_ptr(), VirtAddr::new(env.offset)) };
                let a = m.level_4_table() as *const _ as usize;
                let b = m.level_4_table_mut() as *mut _ as usize;
                vec![("level_4_table", a, root), ("level_4_table_mut", b, root), ("phys_offset", m.phys_offset().as_u64() as usize, env.offset as usize)]
            }
            #[cfg(not(miri))]
            Kind::Recursive => {
                let l4 = env.mmu.as_ref().unwrap().l4_addr() as usize;
                with_mapper!(env, |m| {
                    let a = m.level_4_table() as *const _ as usize;
                    let b = m.level_4_table_mut() as *mut _ as usize;
                    let exp = if env.rec_unchecked { root } else { l4 };
                    vec![("level_4_table", a, exp), ("level_4_table_mut", b, exp)]
                })
            }
            #[cfg(miri)]
            Kind::Recursive => Vec::new(),
        })
    });
    rep.eval();
    match res {
        Ok(v) => {
            for (what, got, exp) in v {
                if got != exp {
                    rep.violation_for("C01", &format!("{}|{}|not-what-the-mapper-was-built-on", env.kind.name(), what), J::obj(vec![("env", J::s(env.desc.clone())), ("got", J::hex(got as u64)), ("expected", J::hex(exp as u64))]));
                }
            }
        }
        Err(m) => rep.violation_for("C01", &format!("{}|accessor|panic", env.kind.name()), J::obj(vec![("env", J::s(env.desc.clone())), ("panic", J::s(m))])),
    }
}

const MENU_PHYS: [u64; 10] = [0x0, 0x1000, 0x20_0000, 0x4000_0000, 0xf_ffff_ffff_f000, 0xf_ffff_ffe0_0000, 0xf_ffff_c000_0000, 0x8000_0000_0000, 0x7fff_ffff_f000, 0x1_0000_0000];

pub fn new_env(kind: Kind, r: &mut Rng, nframes: usize) -> Env {
    let n_data = 6;
    let mut phys: Vec<u64> = Vec::new();
    let mut offset = 0;
    match kind {
        Kind::Mapped | Kind::Recursive => {
            let mut set = BTreeSet::new();
            // root: sometimes physical frame 0 or the very last frame
            let root = match r.below(6) {
                0 => 0,
                1 => 0xf_ffff_ffff_f000,
                _ => (r.next() & ADDR) >> r.below(30) & ADDR,
            };
            set.insert(root);
            phys.push(root);
            while phys.len() < nframes {
                let p = match r.below(4) {
                    0 => *r.pick(&MENU_PHYS),
                    1 => (r.next() & ADDR) & !((1u64 << *r.pick(&[12u32, 21, 30])) - 1),
                    2 => r.below(1 << 20) << 12,
                    _ => r.next() & ADDR,
                };
                if set.insert(p) {
                    phys.push(p);
                }
            }
            // make sure some decoy data frames are huge-aligned (first 4 KiB of a huge frame)
        }
        Kind::Offset => {
            for i in 0..nframes {
                phys.push(i as u64 * 4096);
            }
        }
    }
    let seed = r.next();
    #[cfg(not(miri))]
    let mut arena = Box::new(if kind == Kind::Recursive { Arena::new_memfd(phys, n_data, seed) } else { Arena::new(phys, kind == Kind::Offset, n_data, seed) });
    #[cfg(miri)]
    let mut arena = Box::new(Arena::new(phys, kind == Kind::Offset, n_data, seed));
    if kind == Kind::Offset {
        // choose the physical base: virtual = offset + phys must stay a usable lower-half address
        let block = arena.st().contiguous_block.unwrap().0 as usize as u64;
        let base = match r.below(6) {
            0 => 0,
            1 => 0x1000,
            2 => block & !0x3fff_ffff,            // 1 GiB aligned base -> offset < 1 GiB
            3 => block & !0x1f_ffff,              // 2 MiB aligned base
            4 => block,                           // offset 0: identity mapped physical memory
            _ => (r.below(block >> 12)) << 12,
        };
        let mut st = arena.st();
        st.index.clear();
        for i in 0..st.phys.len() {
            st.phys[i] = base + i as u64 * 4096;
            let ph = st.phys[i];
            st.index.insert(ph, i);
        }
        offset = block - base;
    }
    let mut st = arena.st();
    st.policy = *r.pick(&[Policy::FreshFirst, Policy::RecycledFirst, Policy::Random, Policy::HugeAlignedFirst, Policy::LowFirst, Policy::HighFirst]);
    let data_frames: Vec<u64> = (0..st.n()).filter(|&i| st.role[i] == Role::Data).map(|i| st.phys[i]).collect();
    let mut rec = None;
    #[cfg(not(miri))]
    let mut mmu = None;
    #[cfg(not(miri))]
    if kind == Kind::Recursive {
        // a lower-half recursive index whose 512 GiB region is free in this process
        let scratch_slot = st.n();
        for _ in 0..64 {
            let cand = 1 + r.below(255) as u16;
            if let Some(m) = SoftMmu::new(&arena, cand, scratch_slot) {
                rec = Some(cand);
                mmu = Some(m);
                break;
            }
        }
        let ri = rec.expect("no free recursive region in this process") as usize;
        let root_phys = st.phys[0];
        st.write(0, ri, root_phys | P | W);
    }
    let rec_unchecked = kind == Kind::Recursive && r.chance(1, 3);
    let desc = format!("{} frames={} root={:#x} policy={:?} offset={:#x} recursive_index={:?}{}", kind.name(), nframes, st.phys[0], st.policy, offset, rec, if rec_unchecked { " (new_unchecked on a non-recursive view of the level-4 table)" } else { "" });
    let _ = &mut arena;
    Env {
        kind,
        arena,
        model: Model::new(kind == Kind::Recursive),
        offset,
        history: Vec::new(),
        data_frames,
        desc,
        rec,
        rec_unchecked,
        #[cfg(not(miri))]
        mmu,
        last_pf: std::cell::RefCell::new(Vec::new()),
        focus: Vec::new(),
        desynced: false,
        pending: std::cell::RefCell::new(std::collections::VecDeque::new()),
        corrupt: false,
        ext: false,
        fail_all_next: false,
        step_props: std::cell::RefCell::new(Vec::new()),
    }
}

// ------------------------------------------------------------------------------------------------
// generators
// ------------------------------------------------------------------------------------------------

pub struct Universe {
    pub p4: Vec<u16>,
    pub p3: Vec<u16>,
    pub p2: Vec<u16>,
    pub p1: Vec<u16>,
}

pub fn universe(r: &mut Rng, exclude_p4: Option<u16>) -> Universe {
    let pool4: [u16; 8] = [0, 1, 255, 256, 511, 2, 254, 257];
    let pool: [u16; 6] = [0, 1, 511, 2, 255, 256];
    fn pick(r: &mut Rng, n: usize, pool: &[u16], ex: Option<u16>) -> Vec<u16> {
        let mut v: Vec<u16> = Vec::new();
        while v.len() < n {
            let x = if r.chance(1, 8) { r.below(512) as u16 } else { *r.pick(pool) };
            if !v.contains(&x) && Some(x) != ex {
                v.push(x);
            }
        }
        v
    }
    let n4 = 2 + r.below(3) as usize;
    let n3 = 2 + r.below(2) as usize;
    let n2 = 2 + r.below(2) as usize;
    Universe { p4: pick(r, n4, &pool4, exclude_p4), p3: pick(r, n3, &pool, None), p2: pick(r, n2, &pool, None), p1: pick(r, 3, &pool, None) }
}

fn gen_page(r: &mut Rng, u: &Universe, lvl: u8) -> u64 {
    let p4 = *r.pick(&u.p4) as u64;
    let p3 = *r.pick(&u.p3) as u64;
    let p2 = *r.pick(&u.p2) as u64;
    let p1 = *r.pick(&u.p1) as u64;
    let va = (p4 << 39) | (p3 << 30) | (p2 << 21) | (p1 << 12);
    let size: u64 = 1 << (12 + 9 * (lvl as u32 - 1));
    va & !(size - 1)
}

const LEAF_OPT: [u64; 20] = [W, U, 1 << 3, 1 << 4, 1 << 5, 1 << 6, 1 << 8, 1 << 9, 1 << 10, 1 << 11, 1 << 52, 1 << 53, 1 << 58, 1 << 59, 1 << 60, 1 << 61, 1 << 62, 1 << 63, W | U, 0];
const PARENT_OPT: [u64; 14] = [W, U, 1 << 3, 1 << 4, 1 << 5, 1 << 9, 1 << 10, 1 << 11, 1 << 52, 1 << 62, 1 << 63, W | U, 0, 0];

fn gen_leaf_flags(r: &mut Rng, lvl: u8) -> u64 {
    let mut f = P;
    for _ in 0..r.below(4) {
        f |= *r.pick(&LEAF_OPT);
    }
    if r.chance(1, 10) {
        f |= PS; // PAT bit of a 4 KiB entry; for huge pages the caller may pass HUGE_PAGE itself (e.g. the flags translate() reported)
    }
    if r.chance(1, 30) {
        f = (r.next() & FLAGS & !PS) | P;
    }
    f
}

fn gen_parent_flags(r: &mut Rng) -> u64 {
    let mut f = P;
    for _ in 0..r.below(3) {
        f |= *r.pick(&PARENT_OPT);
    }
    f
}

fn gen_frame(r: &mut Rng, env: &Env, lvl: u8) -> u64 {
    let size: u64 = 1 << (12 + 9 * (lvl as u32 - 1));
    let top = (1u64 << 52) - size;
    let f = match r.below(8) {
        0 => 0,
        1 => top,
        2 | 3 => {
            if !env.data_frames.is_empty() {
                *r.pick(&env.data_frames)
            } else {
                0x5000
            }
        }
        4 => env.arena.root_phys(),
        5 => r.below(64) * size,
        _ => r.next() & ADDR,
    };
    f & !(size - 1) & ADDR
}

pub fn gen_op(r: &mut Rng, env: &Env, u: &Universe, focus: &str) -> Op {
    // scripted episodes: short call sequences in which each call depends on the one before (the same 2 MiB region mapped,
    // emptied, cleaned up and mapped again; parent rights dropped and asked for again ...), which independent uniform
    // choices would produce about never
    if let Some(op) = env.pending.borrow_mut().pop_front() {
        return op;
    }
    if r.chance(1, if focus == "c10" { 150 } else { 600 }) {
        // many empty sibling tables under one parent, released by one clean-up (batching, counters, buffers in the crate)
        let a = gen_page(r, u, 1) & !0x3fff_ffff;
        let n = 30 + r.below(12);
        let mut q: Vec<Op> = Vec::new();
        let pages: Vec<u64> = (0..n).map(|k| a | (k << 21) | (r.below(512) << 12)).collect();
        for &pg in pages.iter() {
            q.push(Op::Map { lvl: 1, page: pg, frame: gen_frame(r, env, 1), flags: gen_leaf_flags(r, 1), pflags: None });
        }
        for &pg in pages.iter() {
            q.push(Op::Unmap { lvl: 1, page: pg });
        }
        q.push(if r.chance(1, 2) { Op::CleanUp } else { Op::CleanRange { start: a, end: a | 0x3fff_f000 } });
        let first = q.remove(0);
        env.pending.borrow_mut().extend(q);
        return first;
    }
    if r.chance(1, 30) {
        let a = gen_page(r, u, 1);
        let region = a & !0x1f_ffff;
        let b = region | (r.below(512) << 12);
        let pf = if r.chance(1, 2) { Some(gen_parent_flags(r)) } else { None };
        let mk = |r: &mut Rng, page: u64, pflags: Option<u64>| Op::Map { lvl: 1, page, frame: gen_frame(r, env, 1), flags: gen_leaf_flags(r, 1), pflags };
        let mut q: Vec<Op> = Vec::new();
        match r.below(5) {
            4 => {
                // the same frame identity-mapped twice (other flags the second time), or mapped at its own address first
                let lv = 1 + r.below(3) as u8;
                let size: u64 = 1 << (12 + 9 * (lv as u32 - 1));
                let mut frame = gen_page(r, u, lv) & 0x7fff_ffff_ffff & !(size - 1);
                if let Some(ri) = env.rec {
                    if (frame >> 39) & 0x1ff == ri as u64 {
                        frame ^= 1 << 39;
                        if (frame >> 39) & 0x1ff == ri as u64 {
                            frame ^= 2 << 39;
                        }
                    }
                }
                if r.chance(1, 2) {
                    q.push(Op::IdentityMap { lvl: lv, frame, flags: gen_leaf_flags(r, lv) });
                } else {
                    q.push(Op::Map { lvl: lv, page: frame, frame, flags: gen_leaf_flags(r, lv), pflags: pf });
                }
                q.push(Op::IdentityMap { lvl: lv, frame, flags: gen_leaf_flags(r, lv) });
                q.push(Op::TranslatePage { lvl: lv, page: frame });
            }
            0 => {
                // map, unmap, clean up the region, map a neighbour with the same parent flags
                q.push(mk(r, a, pf));
                q.push(Op::Unmap { lvl: 1, page: a });
                q.push(if r.chance(1, 2) { Op::CleanUp } else { Op::CleanRange { start: region, end: region | 0x1f_f000 } });
                q.push(mk(r, b, pf));
                q.push(Op::TranslatePage { lvl: 1, page: b });
            }
            1 => {
                // map, take rights away from a parent entry, map a neighbour asking for them again
                q.push(mk(r, a, Some(P | W | U)));
                q.push(Op::SetParent { lvl: 1, n: *r.pick(&[4u8, 3, 2]), page: a, flags: P | (r.next() & (1 << 63)) });
                q.push(mk(r, b, Some(P | W | U)));
            }
            2 => {
                // a huge page replaced by small pages in the same place, and back
                let big = region;
                q.push(Op::Map { lvl: 2, page: big, frame: gen_frame(r, env, 2), flags: gen_leaf_flags(r, 2), pflags: pf });
                q.push(Op::Unmap { lvl: 2, page: big });
                q.push(mk(r, a, pf));
                q.push(Op::Unmap { lvl: 1, page: a });
                q.push(Op::CleanRange { start: region, end: region | 0x1f_f000 });
                q.push(Op::Map { lvl: 2, page: big, frame: gen_frame(r, env, 2), flags: gen_leaf_flags(r, 2), pflags: pf });
            }
            _ => {
                // the same page mapped, changed, unmapped and mapped again
                q.push(mk(r, a, pf));
                q.push(Op::UpdateFlags { lvl: 1, page: a, flags: gen_leaf_flags(r, 1) });
                q.push(Op::Unmap { lvl: 1, page: a });
                q.push(mk(r, a, pf));
            }
        }
        let first = q.remove(0);
        env.pending.borrow_mut().extend(q);
        return first;
    }
    let lvl = match r.below(10) {
        0..=5 => 1,
        6..=8 => 2,
        _ => 3,
    };
    let page = gen_page(r, u, lvl);
    let wmap = if focus == "c10" { 30 } else { 38 };
    // empty tables are what clean-up is about: unmap a page the history really mapped (not just a random one)
    if !env.desynced && r.chance(if focus == "c10" { 22 } else { 8 }, 100) {
        let leaves = env.model.leaves();
        if !leaves.is_empty() {
            let (b, l, _, _) = leaves[r.below(leaves.len() as u64) as usize];
            return Op::Unmap { lvl: l, page: b };
        }
    }
    let x = r.below(100);
    if x < wmap {
        let pflags = if r.chance(1, 2) { Some(gen_parent_flags(r)) } else { None };
        Op::Map { lvl, page, frame: gen_frame(r, env, lvl), flags: gen_leaf_flags(r, lvl), pflags }
    } else if x < wmap + 4 {
        // identity map: frames in the universe, plus frames >= 2^47 (must not succeed)
        let size: u64 = 1 << (12 + 9 * (lvl as u32 - 1));
        let mut frame = if r.chance(1, 5) { (r.next() & ADDR & !(size - 1)) | (1 << 47) } else { gen_page(r, u, lvl) & 0x7fff_ffff_ffff };
        // the identity page of the frame must not fall into the recursive region (excluded for the recursive mapper)
        if let Some(ri) = env.rec {
            if (frame >> 39) & 0x1ff == ri as u64 && frame >> 47 == 0 {
                frame ^= 1 << 39;
                if (frame >> 39) & 0x1ff == ri as u64 {
                    frame ^= 2 << 39;
                }
            }
        }
        Op::IdentityMap { lvl, frame, flags: gen_leaf_flags(r, lvl) }
    } else if x < wmap + 24 {
        Op::Unmap { lvl, page }
    } else if x < wmap + 34 {
        Op::UpdateFlags { lvl, page, flags: gen_leaf_flags(r, lvl) }
    } else if x < wmap + 44 {
        Op::SetParent { lvl, n: *r.pick(&[4u8, 3, 2]), page, flags: gen_parent_flags(r) }
    } else if x < wmap + 52 {
        Op::TranslatePage { lvl, page }
    } else if x < wmap + 55 {
        Op::CleanUp
    } else {
        // ranges: single page, table aligned, unaligned, spanning tables, across the gap, to the last page, empty
        let a = gen_page(r, u, 1);
        let (s, e) = match r.below(9) {
            0 => (a, a),
            1 => (a & !0x1f_ffff, (a & !0x1f_ffff) | 0x1f_f000),
            2 => (a & !0x3fff_ffff, (a & !0x3fff_ffff) | 0x3fff_f000),
            3 => (a & !0x7f_ffff_ffff, (a & !0x7f_ffff_ffff) | 0x7f_ffff_f000),
            4 => (0, 0xffff_ffff_f000),
            5 => (a, 0xffff_ffff_f000),
            6 => (0x7fff_ffff_0000u64.min(a), 0x8000_0000_0000u64.max(a)),
            7 => {
                let b = gen_page(r, u, 1);
                (a.max(b).wrapping_add(0x1000) & 0xffff_ffff_f000, a.min(b))
            }
            _ => {
                let b = gen_page(r, u, 1);
                (a.min(b), a.max(b))
            }
        };
        Op::CleanRange { start: s, end: e }
    }
}

// ------------------------------------------------------------------------------------------------
// the monitor step
// ------------------------------------------------------------------------------------------------

pub struct StepResult {
    pub out: Out,
    pub class: String,
    pub violated: bool,
}

fn path_va(path: &[u16]) -> u64 {
    let mut va = 0u64;
    for (k, &i) in path.iter().enumerate() {
        va |= (i as u64) << (39 - 9 * k as u32);
    }
    sx(va)
}

fn viol(rep: &mut Report, env: &Env, prop: &str, sig: String, op: &Op, extra: Vec<(&str, J)>) {
    let mut kv = vec![("impl", J::s(env.kind.name())), ("env", J::s(env.desc.clone())), ("op", op.to_json()), ("step", J::U(env.history.len() as u64))];
    kv.extend(extra);
    let h = &env.history;
    let tail: Vec<J> = h[h.len().saturating_sub(30)..].to_vec();
    kv.push(("history_tail", J::A(tail)));
    env.step_props.borrow_mut().push(prop.to_string());
    rep.violation_for(prop, &sig, J::obj(kv));
}

fn model_apply(model: &mut Model, op: &Op, fail: Fail) -> Applied {
    match op {
        Op::Map { lvl, page, frame, flags, pflags } => {
            let pfl = pflags.unwrap_or(flags & (P | W | U));
            model.map(*page, *lvl, *frame, *flags, pfl, fail)
        }
        Op::IdentityMap { lvl, frame, flags } => {
            if frame >> 47 != 0 {
                Applied { exp: Exp::Panic, class: "frame>=2^47".into(), requests: 0 }
            } else {
                model.map(*frame, *lvl, *frame, *flags, flags & (P | W | U), fail)
            }
        }
        Op::Unmap { lvl, page } => model.unmap(*page, *lvl),
        Op::UpdateFlags { lvl, page, flags } => model.update_flags(*page, *lvl, *flags),
        Op::SetParent { lvl, n, page, flags } => model.set_parent_flags(*page, *lvl, *n, *flags),
        Op::TranslatePage { lvl, page } => model.translate_page(*page, *lvl),
        Op::CleanUp | Op::CleanRange { .. } => Applied { exp: Exp::Clean, class: "clean".into(), requests: 0 },
    }
}

/// judge result value against the expectation; returns violation (property, kind) if any
fn judge(exp: &Exp, out: &Out, op: &Op) -> Option<(&'static str, String)> {
    let page = match op {
        Op::Map { page, .. } | Op::Unmap { page, .. } | Op::UpdateFlags { page, .. } => Some(sx(*page)),
        Op::IdentityMap { frame, .. } => Some(*frame),
        _ => None,
    };
    match (exp, out) {
        (Exp::Panic, Out::Panic(_)) => None,
        (Exp::Panic, o) => Some(("C01", format!("expected-panic|got-{}", o.short()))),
        (_, Out::Panic(_)) => Some(("C02", "unexpected-panic".into())),
        (Exp::MapOk, Out::MapOk { flush }) => {
            if Some(*flush) != page {
                Some(("C11", "flush-token-names-other-page".into()))
            } else {
                None
            }
        }
        (Exp::MapErr(e), Out::MapErr(g)) => {
            if g == e {
                None
            } else {
                Some(("C02", format!("expected-Err({})|got-Err({})", e, g)))
            }
        }
        (Exp::UnmapOk { frame }, Out::UnmapOk { frame: g, flush }) => {
            if g != frame {
                Some(("C01", "unmap-returned-other-frame".into()))
            } else if Some(*flush) != page {
                Some(("C11", "flush-token-names-other-page".into()))
            } else {
                None
            }
        }
        (Exp::UnmapErr(e), Out::UnmapErr(g)) | (Exp::FlagsErr(e), Out::FlagsErr(g)) | (Exp::SetErr(e), Out::SetErr(g)) | (Exp::TpErr(e), Out::TpErr(g)) => {
            if g == e {
                None
            } else {
                Some(("C02", format!("expected-Err({})|got-Err({})", e, g)))
            }
        }
        (Exp::FlagsOk, Out::FlagsOk { flush }) => {
            if Some(*flush) != page {
                Some(("C11", "flush-token-names-other-page".into()))
            } else {
                None
            }
        }
        (Exp::SetOk, Out::SetOk) => None,
        (Exp::TpOk { frame }, Out::TpOk { frame: g }) => {
            if g == frame {
                None
            } else {
                Some(("C01", "translate_page-returned-other-frame".into()))
            }
        }
        (Exp::Clean, Out::Clean) => None,
        (Exp::AnyErr, o) => {
            if o.is_ok() {
                // (for translate_page this is also a translation the history does not dictate: C01 is tagged by the caller)
                Some(("C02", "Ok-for-a-size-that-is-not-mapped-there".into()))
            } else {
                None
            }
        }
        (e, o) => {
            let es = match e {
                Exp::MapOk | Exp::UnmapOk { .. } | Exp::FlagsOk | Exp::SetOk | Exp::TpOk { .. } => "Ok".to_string(),
                Exp::MapErr(x) | Exp::UnmapErr(x) | Exp::FlagsErr(x) | Exp::SetErr(x) | Exp::TpErr(x) => format!("Err({})", x),
                _ => "?".into(),
            };
            // Ok where a defined error was expected, or an error where success was expected
            let prop = if o.is_ok() { "C02" } else if es == "Ok" { "C01" } else { "C02" };
            Some((prop, format!("expected-{}|got-{}", es, o.short())))
        }
    }
}

pub struct Monitors {
    pub probes: bool,
    pub bytediff: bool,
    /// at most this many probe addresses per step (0 = no limit)
    pub max_probes: usize,
}

/// run one operation under all monitors. Returns (outcome, state class, any violation seen)
pub fn step(env: &mut Env, op: &Op, fail: Fail, rep: &mut Report, r: &mut Rng, mon: &Monitors) -> StepResult {
    env.step_props.borrow_mut().clear();
    if env.desynced {
        return step_desynced(env, op, rep, r, mon);
    }
    let mut res = step_synced(env, op, fail, rep, r, mon);
    if res.violated {
        let hit_focus = env.focus.is_empty() || env.step_props.borrow().iter().any(|p| env.focus.contains(&p.as_str()));
        if !hit_focus {
            // a property other than the one under examination was violated: the model no longer describes the tables,
            // but the model-independent monitors (byte diff, allocator roles, frame_to_pointer, software-MMU log,
            // clean-up clauses, translate-vs-walk) stay meaningful, so the history goes on with those
            env.desynced = true;
            res.violated = false;
            rep.count("histories_desynced_by_other_property", 1);
        }
    }
    res
}

fn pre_snap_ref(s: &Option<Vec<u64>>) -> Option<&Vec<u64>> {
    s.as_ref()
}
fn pre_snap_read(s: &Option<&Vec<u64>>, fi: usize, idx: usize) -> Option<u64> {
    s.map(|v| v[fi * 512 + idx])
}

/// model-independent monitors only (after a violation of another property de-synchronised the model)
/// the recursive addresses of all tables of a hierarchy (from a raw dump), the level-4 table included
fn recursive_table_vas(ri: u64, d: &Dump) -> BTreeSet<u64> {
    fn rec(k: &BTreeMap<u16, RNode>, path: &mut Vec<u64>, ri: u64, out: &mut BTreeSet<u64>) {
        for (&i, n) in k.iter() {
            if let RNode::Table { kids, .. } = n {
                path.push(i as u64);
                // a table reached by `path` (len = 4 - its level) sits at R repeated (4 - len) times, then the path
                let mut idx = vec![ri; 4 - path.len()];
                idx.extend(path.iter().copied());
                out.insert((idx[0] << 39) | (idx[1] << 30) | (idx[2] << 21) | (idx[3] << 12));
                rec(kids, path, ri, out);
                path.pop();
            }
        }
    }
    let mut out = BTreeSet::new();
    out.insert((ri << 39) | (ri << 30) | (ri << 21) | (ri << 12));
    rec(&d.kids, &mut Vec::new(), ri, &mut out);
    out
}

/// C20, per call: is `acc` (a faulting address inside the recursive region) the recursive address of a table that the
/// call has any business with? For an operation on one page those are the level-4 table and the level-3/2/1 tables on that
/// page's path; for a range clean-up the tables whose span overlaps the range.
fn recursive_access_expected(ri: u64, acc: u64, op: &Op) -> bool {
    let ix = [(acc >> 39) & 0x1ff, (acc >> 30) & 0x1ff, (acc >> 21) & 0x1ff, (acc >> 12) & 0x1ff];
    // leading recursive indices tell the level of the table; the rest is its path
    let lead = ix.iter().take_while(|&&x| x == ri).count();
    if lead == 4 {
        return true; // the level-4 table itself
    }
    if lead == 0 {
        return false;
    }
    let path: Vec<u64> = ix[lead..].to_vec(); // len 1 (a level-3 table) .. 3 (a level-1 table)
    let shift = 12 + 9 * (4 - path.len() as u32);
    let mut base = 0u64;
    for (k, &p) in path.iter().enumerate() {
        base |= p << (39 - 9 * k as u32);
    }
    let lo = base;
    let hi = base | ((1u64 << shift) - 1);
    let page_va = |v: u64| v & 0xffff_ffff_ffff;
    match op {
        Op::Map { page, .. } | Op::Unmap { page, .. } | Op::UpdateFlags { page, .. } | Op::SetParent { page, .. } | Op::TranslatePage { page, .. } => {
            let v = page_va(*page);
            v >= lo && v <= hi
        }
        Op::IdentityMap { frame, .. } => {
            let v = page_va(*frame);
            v >= lo && v <= hi
        }
        Op::CleanUp => true,
        Op::CleanRange { start, end } => {
            let (s, e) = (page_va(*start), page_va(*end));
            s <= e && lo <= e && hi >= s
        }
    }
}

/// Leaf-position entries (va, level, raw) found by walking raw memory the way the MMU would, but ALSO through "parked"
/// parents: a non-present, non-zero entry at a table position whose address is a frame the mapper allocated as a table.
/// What sits under a parked parent is part of the hierarchy a kernel will re-enable, and a failing call must leave it alone.
fn leaf_entries_incl_parked(st: &State, root: u64, skip_l4: Option<u16>) -> Vec<(u64, u8, u64)> {
    fn rec(st: &State, fi: usize, level: u8, base: u64, skip_l4: Option<u16>, out: &mut Vec<(u64, u8, u64)>) {
        for i in 0..512usize {
            if level == 4 && Some(i as u16) == skip_l4 {
                continue;
            }
            let raw = st.read(fi, i);
            if raw == 0 {
                continue;
            }
            let b = base | ((i as u64) << (12 + 9 * (level as u32 - 1)));
            let present = raw & P != 0;
            let ps = raw & PS != 0;
            if level == 1 || (ps && level < 4) {
                out.push((b, level, raw));
                continue;
            }
            match st.frame_index(raw & ADDR) {
                Some(c) if c != fi && (present || st.role[c] == Role::Allocated) => rec(st, c, level - 1, b, skip_l4, out),
                _ => {
                    if present {
                        out.push((b, level, raw)) // a link to memory outside the simulation
                    }
                    // a non-present entry that is not a parked table: a disabled parent of something else, free to change
                }
            }
        }
    }
    let mut out = Vec::new();
    if let Some(fi) = st.frame_index(root) {
        rec(st, fi, 4, 0, skip_l4, &mut out);
    }
    out
}

fn step_desynced(env: &mut Env, op: &Op, rep: &mut Report, r: &mut Rng, mon: &Monitors) -> StepResult {
    let mut st = env.arena.st();
    st.begin_call();
    st.fail_at = None;
    let pre_snap = if mon.bytediff { Some(st.snapshot()) } else { None };
    let root = env.arena.root_phys();
    let is_clean = matches!(op, Op::CleanUp | Op::CleanRange { .. });
    let pre_dump = hwwalk::dump_skip(&st, root, env.rec);
    let pre_leaves = leaf_entries_incl_parked(&st, root, env.rec);
    st.watch = if is_clean && cfg!(vx_opt0) { watch_list(&pre_dump, &st, root) } else { Vec::new() };
    let pre_walk = match op {
        Op::Unmap { page, .. } => Some(hwwalk::walk(&st, root, *page)),
        _ => None,
    };
    env.last_pf.borrow_mut().clear();
    env.history.push(op.to_json());
    let out = env.exec(op);
    rep.eval();
    let opn = op.name();
    let kname = env.kind.name();
    let mut st = env.arena.st();
    let cbs: Vec<(String, String, String)> = st.callback_violations.drain(..).collect();
    for (prop, sig, det) in cbs {
        viol(rep, env, &prop, format!("{}|{}|{}", kname, opn, sig), op, vec![("detail", J::s(det))]);
    }
    let mut st = env.arena.st();
    let log = st.log.clone();
    let nreq = log.iter().filter(|e| !e.dealloc).count();
    let ndealloc = log.iter().filter(|e| e.dealloc).count();
    if !is_clean && ndealloc > 0 {
        viol(rep, env, "C09", format!("{}|{}|deallocated-frames-outside-clean_up", kname, opn), op, vec![]);
    }
    if !matches!(op, Op::Map { .. } | Op::IdentityMap { .. }) && nreq > 0 {
        viol(rep, env, "C09", format!("{}|{}|allocation-request-by-non-map-operation", kname, opn), op, vec![]);
    }
    let lvl_max = match op {
        Op::Map { lvl, .. } | Op::IdentityMap { lvl, .. } => 4 - *lvl as usize,
        _ => 0,
    };
    if nreq > lvl_max && matches!(op, Op::Map { .. } | Op::IdentityMap { .. }) {
        viol(rep, env, "C09", format!("{}|{}|more-allocation-requests-than-table-levels", kname, opn), op, vec![("requests", J::U(nreq as u64))]);
    }
    let mut st = env.arena.st();
    let post = hwwalk::dump_skip(&st, root, env.rec);
    if is_clean {
        released_frames_untouched(env, op, rep); // (before check_cleanup, which repeats the call)
        check_cleanup(env, op, &pre_dump, &post, &log, rep);
    }
    // model-free: a successful unmap removed a mapping the MMU would have used, of that size, and returns its frame
    if let (Out::UnmapOk { frame, .. }, Some(w), Op::Unmap { lvl, page }) = (&out, pre_walk, op) {
        let size = 1u64 << (12 + 9 * (*lvl as u32 - 1));
        let ok = matches!(w, Walk::Mapped { pa, size: s, .. } if s == size && pa & !(size - 1) == *frame);
        if !ok {
            viol(rep, env, "C02", format!("{}|{}|Ok-for-a-page-the-tables-did-not-map-at-that-size", kname, opn), op, vec![("page", J::hex(*page)), ("hardware_walk_before", J::s(format!("{:x?}", w))), ("returned_frame", J::hex(*frame))]);
        }
    }
    // model-free failure atomicity (C02): a call that reports an error - or only answers a question - leaves every
    // leaf entry of the hierarchy, present or not, exactly as it was; whatever state the tables are in
    if matches!(out, Out::MapErr(_) | Out::UnmapErr(_) | Out::FlagsErr(_) | Out::SetErr(_) | Out::TpErr(_) | Out::TpOk { .. }) {
        let (a, b) = (&pre_leaves, leaf_entries_incl_parked(&st, root, env.rec));
        let lost = a.iter().find(|x| !b.contains(x)).cloned();
        let gained = b.iter().find(|x| !a.contains(x)).cloned();
        if lost.is_some() || gained.is_some() {
            viol(rep, env, "C02", format!("{}|{}|{}|leaf-entries-changed-by-a-call-that-reported-an-error", kname, opn, out.short()), op, vec![("entry_before(va,level,raw)", J::s(format!("{:x?}", lost))), ("entry_after(va,level,raw)", J::s(format!("{:x?}", gained)))]);
            // a present leaf that appears or disappears is also a translation the successful calls do not dictate
            if lost.map(|x| x.2 & P != 0).unwrap_or(false) || gained.map(|x| x.2 & P != 0).unwrap_or(false) {
                viol(rep, env, "C01", format!("{}|{}|{}|translation-changed-by-a-call-that-reported-an-error", kname, opn, out.short()), op, vec![("entry_before(va,level,raw)", J::s(format!("{:x?}", lost))), ("entry_after(va,level,raw)", J::s(format!("{:x?}", gained)))]);
            }
        }
    }
    if let Some(snap) = pre_snap {
        let mut st = env.arena.st();
        for i in 0..st.n() {
            if st.poisoned_this_call.contains(&i) {
                continue;
            }
            let ph = st.phys[i];
            if post.tables.contains_key(&ph) || pre_dump.tables.contains_key(&ph) {
                continue;
            }
            // a table hidden behind a disabled (non-present) parent entry is still a table of the hierarchy
            if env.ext && matches!(st.role[i], Role::Root | Role::Allocated) {
                continue;
            }
            if (0..512).any(|s| st.read(i, s) != snap[i * 512 + s]) {
                let role = st.role[i];
                viol(rep, env, "C09", format!("{}|{}|modified-non-table-memory|{:?}-frame", kname, opn, role), op, vec![("frame", J::hex(ph)), ("note", J::s("model de-synchronised earlier in this history by a violation of another property"))]);
                break;
            }
        }
    }
    let mut st = env.arena.st();
    let bad: Vec<u64> = st.f2p_log.iter().filter(|x| !x.1).map(|x| x.0).collect();
    if !bad.is_empty() {
        viol(rep, env, "C09", format!("{}|{}|desynced|frame_to_pointer-for-non-table-frame", kname, opn), op, vec![("frame", J::hex(bad[0]))]);
    }
    if env.kind == Kind::Recursive {
        let log: Vec<PfEvent> = env.last_pf.borrow_mut().drain(..).collect();
        for e in log.iter() {
            if !e.is_table {
                viol(rep, env, "C09", format!("{}|{}|desynced|recursive-access-reached-non-table-memory", kname, opn), op, vec![("va", J::hex(e.va)), ("reached_frame", J::hex(e.phys))]);
                break;
            }
        }
        if let Some(ri) = env.rec {
            if let Some(e) = log.iter().find(|e| !recursive_access_expected(ri as u64, e.va & 0xffff_ffff_f000, op)) {
                viol(rep, env, "C20", format!("{}|{}|access-at-the-recursive-address-of-a-table-the-call-has-no-business-with", kname, opn), op, vec![("va", J::hex(e.va)), ("recursive_index", J::U(ri as u64))]);
            }
            let mut vas = recursive_table_vas(ri as u64, &pre_dump);
            vas.extend(recursive_table_vas(ri as u64, &post));
            if let Some(e) = log.iter().find(|e| !vas.contains(&e.va)) {
                viol(rep, env, "C20", format!("{}|{}|desynced|access-at-address-that-is-not-the-recursive-address-of-a-table", kname, opn), op, vec![("va", J::hex(e.va)), ("recursive_index", J::U(ri as u64))]);
            }
        }
    }
    let _ = r;
    rep.class(&format!("{}|{}|desynced|{}", kname, opn, out.short()));
    let hit_focus = env.step_props.borrow().iter().any(|p| env.focus.contains(&p.as_str()));
    StepResult { out, class: "desynced".into(), violated: hit_focus }
}

fn step_synced(env: &mut Env, op: &Op, fail: Fail, rep: &mut Report, r: &mut Rng, mon: &Monitors) -> StepResult {
    let mut st = env.arena.st();
    st.begin_call();
    let avail = st.free_count();
    st.fail_at = fail.at;
    st.fail_all = env.fail_all_next;
    let pre_snap = if mon.bytediff { Some(st.snapshot()) } else { None };
    let root = env.arena.root_phys();
    let is_clean = matches!(op, Op::CleanUp | Op::CleanRange { .. });
    let skip = env.rec;
    let need_pre = is_clean || env.kind == Kind::Recursive;
    let pre_dump = if need_pre { Some(hwwalk::dump_skip(&st, root, skip)) } else { None };
    st.watch = match (&pre_dump, is_clean && cfg!(vx_opt0)) {
        (Some(d), true) => watch_list(d, &st, root),
        _ => Vec::new(),
    };
    env.last_pf.borrow_mut().clear();
    // natural exhaustion of the pool also fails a request
    let eff_fail = match fail.at {
        Some(k) if k <= avail + 1 => fail,
        _ => Fail { at: Some(avail + 1) },
    };
    env.model.clear_touch();
    let pre_model = if is_clean { None } else { Some(env.model.kids.clone()) };
    let applied = model_apply(&mut env.model, op, eff_fail);
    env.history.push(op.to_json());
    let out = env.exec(op);
    rep.eval();
    let mut violated = false;
    let opn = op.name();
    let kname = env.kind.name();
    let cls = applied.class.clone();

    // 1. result value
    if let Some((prop, kind)) = judge(&applied.exp, &out, op) {
        // a wrong flush token, and a translate_page that reports a mapping of a size that is not there, are also
        // statements about translations that the history does not dictate (C01)
        if prop == "C11" || (matches!(op, Op::TranslatePage { .. }) && out.is_ok() && kind.starts_with("Ok-for-a-size")) || (matches!(op, Op::Map { .. } | Op::IdentityMap { .. }) && out.is_ok() && prop == "C02") {
            viol(rep, env, "C01", format!("{}|{}|{}|{}", kname, opn, cls_sig(&cls), kind), op, vec![("expected", J::s(format!("{:?}", applied.exp))), ("got", J::s(format!("{:?}", out)))]);
        }
        viol(rep, env, prop, format!("{}|{}|{}|{}", kname, opn, cls_sig(&cls), kind), op, vec![("expected", J::s(format!("{:?}", applied.exp))), ("got", J::s(format!("{:?}", out))), ("state_class", J::s(cls.clone()))]);
        violated = true;
    }
    let mut st = env.arena.st();
    st.fail_at = None;
    // callbacks
    let cbs: Vec<(String, String, String)> = st.callback_violations.drain(..).collect();
    for (prop, sig, det) in cbs {
        viol(rep, env, &prop, format!("{}|{}|{}", kname, opn, sig), op, vec![("detail", J::s(det))]);
        violated = true;
    }
    let mut st = env.arena.st();
    // 2. allocator log
    let log = st.log.clone();
    let nreq = log.iter().filter(|e| !e.dealloc).count();
    let ndealloc = log.iter().filter(|e| e.dealloc).count();
    if !is_clean && ndealloc > 0 {
        viol(rep, env, "C09", format!("{}|{}|deallocated-frames-outside-clean_up", kname, opn), op, vec![]);
        violated = true;
    }
    let is_map = matches!(op, Op::Map { .. } | Op::IdentityMap { .. });
    if !is_map && nreq > 0 {
        viol(rep, env, "C09", format!("{}|{}|allocation-request-by-non-map-operation", kname, opn), op, vec![("requests", J::U(nreq as u64))]);
        violated = true;
    }
    if is_map && !matches!(out, Out::Panic(_)) && !violated {
        if nreq != applied.requests {
            let kind = if nreq > applied.requests { "more-allocation-requests-than-missing-tables" } else { "fewer-allocation-requests-than-missing-tables" };
            viol(rep, env, "C09", format!("{}|{}|{}|{}", kname, opn, cls_sig(&cls), kind), op, vec![("requests", J::U(nreq as u64)), ("expected", J::U(applied.requests as u64))]);
            violated = true;
        }
        // no request after a failed one
        if let Some(pos) = log.iter().position(|e| !e.dealloc && e.frame.is_none()) {
            if log[pos + 1..].iter().any(|e| !e.dealloc) {
                viol(rep, env, "C02", format!("{}|{}|allocation-request-after-failed-request", kname, opn), op, vec![]);
                violated = true;
            }
        }
    }
    // 3. dump vs model
    let mut st = env.arena.st();
    let post = hwwalk::dump_skip(&st, root, skip);
    rep.count("dumps_compared", 1);
    rep.count("table_entries_read", post.entries_read);
    if is_clean {
        released_frames_untouched(env, op, rep); // (before check_cleanup, which repeats the call)
        if check_cleanup(env, op, pre_dump.as_ref().unwrap(), &post, &log, rep) {
            violated = true;
        }
        // adopt the real structure (clauses were checked one by one)
        env.model.kids = refmodel::from_dump(&post.kids, 4);
    } else if violated {
        // the model no longer describes the tables; the history is abandoned by the caller
    } else {
        let mut allocs: Vec<(u64, bool)> = log.iter().filter(|e| !e.dealloc).filter_map(|e| e.frame).map(|f| (f, false)).collect();
        let mut mism = Vec::new();
        let mut path = Vec::new();
        refmodel::compare(&mut env.model.kids, &post.kids, 4, &mut path, &mut allocs, false, &mut mism);
        let errd = !out.is_ok();
        for m in mism.iter().take(4) {
            let prop = if m.in_new_table && (m.kind.starts_with("extra")) {
                "C09"
            } else if m.kind == "new-table-frame-not-from-allocator" {
                "C09"
            } else if errd {
                "C02"
            } else {
                "C01"
            };
            let kind = if m.in_new_table && m.kind.starts_with("extra") { "new-table-not-zeroed" } else { m.kind };
            let what = if errd { "after-Err" } else { "after-Ok" };
            viol(
                rep,
                env,
                prop,
                format!("{}|{}|{}|{}|{}", kname, opn, cls_sig(&cls), what, kind),
                op,
                vec![("mismatch_at", J::hex(path_va(&m.path))), ("level_path", J::A(m.path.iter().map(|&i| J::U(i as u64)).collect())), ("detail", J::s(m.detail.clone())), ("result", J::s(out.short())), ("state_class", J::s(cls.clone()))],
            );
            violated = true;
        }
        for a in allocs.iter() {
            if !a.1 && !violated {
                viol(rep, env, "C09", format!("{}|{}|{}|allocated-frame-not-linked", kname, opn, cls_sig(&cls)), op, vec![("frame", J::hex(a.0))]);
                violated = true;
            }
        }
        // C02: after an Err no leaf may differ from before (the model did not change leaves on Err paths;
        // double-check against the pre-call model so a model bug cannot hide a change)
        if errd {
            if let Some(pm) = pre_model {
                let before = Model { kids: pm, forces_pw: false }.leaves();
                let after = env.model.leaves();
                if before != after && !violated {
                    viol(rep, env, "C02", format!("{}|{}|model-leaves-changed-on-error(harness)", kname, opn), op, vec![]);
                    violated = true;
                }
            }
        }
    }
    // 4. byte diff of all simulated physical memory
    if let Some(snap) = pre_snap {
        let mut st = env.arena.st();
        let mut changed_frames = 0u64;
        for i in 0..st.n() {
            if st.poisoned_this_call.contains(&i) {
                continue;
            }
            let ph = st.phys[i];
            let is_table_now = post.tables.contains_key(&ph);
            let was_table = pre_dump.as_ref().map(|d| d.tables.contains_key(&ph)).unwrap_or(false);
            let mut diff_slots: Vec<usize> = Vec::new();
            for s in 0..512 {
                if st.read(i, s) != snap[i * 512 + s] {
                    diff_slots.push(s);
                }
            }
            if diff_slots.is_empty() {
                continue;
            }
            changed_frames += 1;
            if !is_table_now && !was_table {
                let role = st.role[i];
                viol(
                    rep,
                    env,
                    "C09",
                    format!("{}|{}|modified-non-table-memory|{:?}-frame", kname, opn, role),
                    op,
                    vec![("frame", J::hex(ph)), ("slots", J::A(diff_slots.iter().take(8).map(|&s| J::U(s as u64)).collect())), ("state_class", J::s(cls.clone()))],
                );
                violated = true;
            }
        }
        rep.count("frames_diffed", st.n() as u64);
        rep.count("frames_changed", changed_frames);
    }
    // 5. frame_to_pointer log: only live tables may be requested
    let mut st = env.arena.st();
    let bad: Vec<u64> = st.f2p_log.iter().filter(|x| !x.1).map(|x| x.0).collect();
    rep.count("frame_to_pointer_calls", st.f2p_log.len() as u64);
    if st.in_callback_checks != 0 {
        rep.count("in_callback_dealloc_checks", st.in_callback_checks);
        rep.count("in_callback_tables_walked", st.in_callback_tables_walked);
        st.in_callback_checks = 0;
        st.in_callback_tables_walked = 0;
    }
    if !bad.is_empty() && !violated {
        viol(rep, env, "C09", format!("{}|{}|{}|frame_to_pointer-for-non-table-frame", kname, opn, cls_sig(&cls)), op, vec![("frame", J::hex(bad[0]))]);
        violated = true;
    }
    // 5b. software MMU log (RecursivePageTable): which physical frame every recursive access really reached (C09),
    //     and whether the address used is the recursive address of one of the hierarchy's tables (C20)
    if env.kind == Kind::Recursive {
        let log: Vec<PfEvent> = env.last_pf.borrow_mut().drain(..).collect();
        rep.count("softmmu_faults_resolved", log.len() as u64);
        let ri = env.rec.unwrap() as u64;
        let mut table_vas = recursive_table_vas(ri, &post);
        if let Some(d) = pre_dump.as_ref() {
            table_vas.extend(recursive_table_vas(ri, d));
        }
        let mut c20_path_reported = false;
        for e in log.iter() {
            if !e.is_table && !violated {
                let what = if e.phys == u64::MAX { "recursive-access-through-non-present-entry" } else if e.in_arena { "recursive-access-reached-non-table-frame" } else { "recursive-access-reached-memory-outside-the-hierarchy" };
                viol(rep, env, "C09", format!("{}|{}|{}|{}{}", kname, opn, cls_sig(&cls), what, if e.end_level >= 2 { "(through-huge-page-entry)" } else { "" }), op, vec![("va", J::hex(e.va)), ("reached_frame", J::hex(e.phys)), ("write", J::Bool(e.write)), ("state_class", J::s(cls.clone()))]);
                violated = true;
            }
            // the two C20 clauses are judged from the raw dumps and the call's arguments alone, so also when another
            // clause has already fired in this step; at most one report per step
            if !table_vas.contains(&e.va) && !c20_path_reported {
                c20_path_reported = true;
                viol(rep, env, "C20", format!("{}|{}|access-at-address-that-is-not-the-recursive-address-of-a-table", kname, opn), op, vec![("va", J::hex(e.va)), ("recursive_index", J::U(ri))]);
                violated = true;
            }
            if !recursive_access_expected(ri, e.va & 0xffff_ffff_f000, op) && !c20_path_reported {
                c20_path_reported = true;
                viol(rep, env, "C20", format!("{}|{}|access-at-the-recursive-address-of-a-table-the-call-has-no-business-with", kname, opn), op, vec![("va", J::hex(e.va)), ("recursive_index", J::U(ri))]);
                violated = true;
            }
        }
        #[cfg(not(miri))]
        if env.mmu.as_ref().map(|m| m.overflow).unwrap_or(false) {
            rep.inconclusive = Some("software MMU log / mapping table overflow".into());
        }
    }
    // 6. probes: the crate's translate* vs the hardware walk of raw memory vs the model
    if mon.probes && !violated {
        if probe(env, op, rep, r, mon.max_probes) {
            violated = true;
        }
    }
    let class = format!("{}|{}|{}|{}", kname, opn, cls, out.short());
    rep.class(&class);
    StepResult { out, class, violated }
}

/// strip volatile numbers from a state class for use in signatures
fn cls_sig(c: &str) -> String {
    c.split('|').next().unwrap_or(c).to_string()
}

fn probe_addrs(env: &Env, op: &Op, r: &mut Rng) -> Vec<u64> {
    let mut v: Vec<u64> = Vec::new();
    let base = match op {
        Op::Map { page, .. } | Op::Unmap { page, .. } | Op::UpdateFlags { page, .. } | Op::SetParent { page, .. } | Op::TranslatePage { page, .. } => Some(*page),
        Op::IdentityMap { frame, .. } => Some(*frame & 0xffff_ffff_ffff),
        Op::CleanRange { start, .. } => Some(*start),
        Op::CleanUp => None,
    };
    if let Some(b) = base {
        for sh in [12u32, 21, 30] {
            let size = 1u64 << sh;
            let s = b & !(size - 1);
            v.push(s);
            v.push(s + size - 1);
            v.push(s.wrapping_sub(1) & 0xffff_ffff_ffff);
            v.push((s + size) & 0xffff_ffff_ffff);
        }
        v.push(b + r.below(0x1000));
    }
    let leaves = env.model.leaves();
    if env.kind == Kind::Recursive {
        // every probe costs several software-MMU faults: keep the op's own page plus a few leaves
        v.truncate(5);
    }
    for _ in 0..(if env.kind == Kind::Recursive { 1 } else { 6 }) {
        if leaves.is_empty() {
            break;
        }
        let (b, lvl, _, _) = leaves[r.below(leaves.len() as u64) as usize];
        let size = 1u64 << (12 + 9 * (lvl as u32 - 1));
        v.push(b);
        v.push(b + size - 1);
        v.push(b + r.below(size));
        v.push(b.wrapping_sub(1) & 0xffff_ffff_ffff);
        v.push((b + size) & 0xffff_ffff_ffff);
    }
    v.extend_from_slice(&[0, 0x7fff_ffff_ffff, 0x8000_0000_0000, 0xffff_ffff_ffff]);
    // addresses inside the recursive region translate through the recursive entry itself; they are outside the
    // quantifier (pages whose p4 index is the recursive index are excluded)
    if let Some(ri) = env.rec {
        v.retain(|&a| (a >> 39) & 0x1ff != ri as u64);
    }
    v.iter().map(|&a| sx(a)).collect()
}

fn probe(env: &mut Env, op: &Op, rep: &mut Report, r: &mut Rng, max_probes: usize) -> bool {
    let root = env.arena.root_phys();
    let kname = env.kind.name();
    let mut addrs = probe_addrs(env, op, r);
    if max_probes > 0 && addrs.len() > max_probes {
        for i in 0..max_probes {
            let j = i + r.below((addrs.len() - i) as u64) as usize;
            addrs.swap(i, j);
        }
        addrs.truncate(max_probes);
    }
    let mut bad = false;
    for va in addrs {
        let hw = hwwalk::walk(&env.arena.st(), root, va);
        let md = env.model.lookup(va & 0xffff_ffff_ffff);
        rep.count("probes", 1);
        // (a) raw memory vs history
        let agree = match (hw, md) {
            (Walk::NotPresent, None) => true,
            (Walk::Mapped { pa, size, leaf_raw, eff_w, eff_u, .. }, Some((mpa, lvl, fl, w, u))) => pa == mpa && size == 1u64 << (12 + 9 * (lvl as u32 - 1)) && leaf_raw & FLAGS == fl && eff_w == w && eff_u == u,
            _ => false,
        };
        if !agree {
            viol(rep, env, "C01", format!("{}|hardware-walk-differs-from-history", kname), op, vec![("va", J::hex(va)), ("hw", J::s(format!("{:x?}", hw))), ("history", J::s(format!("{:x?}", md)))]);
            bad = true;
            break;
        }
        // (b) translate()
        let tr = env.translate(va);
        let t_ok = match (&tr, hw) {
            (Ok(TranslateResult::NotMapped), Walk::NotPresent) => true,
            (Ok(TranslateResult::Mapped { frame, offset, flags }), Walk::Mapped { pa, size, leaf_raw, .. }) => {
                let (fs, fsz) = match frame {
                    MappedFrame::Size4KiB(f) => (f.start_address().as_u64(), 4096u64),
                    MappedFrame::Size2MiB(f) => (f.start_address().as_u64(), 1 << 21),
                    MappedFrame::Size1GiB(f) => (f.start_address().as_u64(), 1 << 30),
                };
                fs.wrapping_add(*offset) == pa && fsz == size && frame.size() == size && frame.start_address().as_u64() == fs && flags.bits() & FLAGS == leaf_raw & FLAGS && *offset < size
            }
            _ => false,
        };
        if !t_ok {
            viol(rep, env, "C01", format!("{}|translate-differs-from-hardware-walk", kname), op, vec![("va", J::hex(va)), ("hw", J::s(format!("{:x?}", hw))), ("translate", J::s(format!("{:x?}", tr)))]);
            bad = true;
            break;
        }
        // (c) translate_addr()
        let ta = env.translate_addr(va);
        let exp = match hw {
            Walk::Mapped { pa, .. } => Some(pa),
            _ => None,
        };
        if ta != Ok(exp) {
            viol(rep, env, "C01", format!("{}|translate_addr-differs-from-hardware-walk", kname), op, vec![("va", J::hex(va)), ("hw", J::s(format!("{:x?}", hw))), ("translate_addr", J::s(format!("{:x?}", ta)))]);
            bad = true;
            break;
        }
        // (d) translate_page of the mapped size (only where the state is defined: a leaf of exactly that size)
        if let Walk::Mapped { pa, size, .. } = hw {
            let lvl = match size {
                4096 => 1,
                0x20_0000 => 2,
                _ => 3,
            };
            let o = env.translate_page(va & !(size - 1) & 0xffff_ffff_ffff, lvl);
            let expf = pa & !(size - 1);
            if o != (Out::TpOk { frame: expf }) {
                viol(rep, env, "C01", format!("{}|translate_page-differs-from-hardware-walk", kname), op, vec![("va", J::hex(va)), ("hw", J::s(format!("{:x?}", hw))), ("translate_page", J::s(format!("{:x?}", o)))]);
                bad = true;
                break;
            }
        }
    }
    bad
}

// ------------------------------------------------------------------------------------------------
// C10: clean_up clauses
// ------------------------------------------------------------------------------------------------

struct TInfo {
    level: u8,
    vbase: u64, // 48-bit
    entries: usize,
    parent: u64,
    parent_slot: u16,
}

fn table_info(d: &Dump) -> BTreeMap<u64, Vec<TInfo>> {
    fn rec(k: &BTreeMap<u16, hwwalk::RNode>, level: u8, base: u64, parent: u64, out: &mut BTreeMap<u64, Vec<TInfo>>) {
        for (&i, n) in k.iter() {
            let b = base | ((i as u64) << (12 + 9 * (level as u32 - 1)));
            if let hwwalk::RNode::Table { frame, kids, .. } = n {
                out.entry(*frame).or_default().push(TInfo { level: level - 1, vbase: b, entries: kids.len(), parent, parent_slot: i });
                rec(kids, level - 1, b, *frame, out);
            }
        }
    }
    let mut out = BTreeMap::new();
    rec(&d.kids, 4, 0, d.root, &mut out);
    out
}

fn leaves_of(d: &Dump) -> Vec<(u64, u8, u64)> {
    fn rec(k: &BTreeMap<u16, hwwalk::RNode>, level: u8, base: u64, out: &mut Vec<(u64, u8, u64)>) {
        for (&i, n) in k.iter() {
            let b = base | ((i as u64) << (12 + 9 * (level as u32 - 1)));
            match n {
                hwwalk::RNode::Leaf { raw } => out.push((b, level, *raw)),
                hwwalk::RNode::Table { kids, .. } => rec(kids, level - 1, b, out),
                _ => {}
            }
        }
    }
    let mut out = Vec::new();
    rec(&d.kids, 4, 0, &mut out);
    out
}

/// position of a 48-bit virtual address in the contiguous canonical space
fn pos48(va: u64) -> u64 {
    va & 0xffff_ffff_ffff
}

fn check_cleanup(env: &mut Env, op: &Op, pre: &Dump, post: &Dump, log: &[crate::simphys::AllocEvent], rep: &mut Report) -> bool {
    let kname = env.kind.name();
    let opn = op.name();
    let (rs, re) = match op {
        Op::CleanUp => (0u64, 0xffff_ffff_f000u64),
        Op::CleanRange { start, end } => (pos48(*start), pos48(*end)),
        _ => unreachable!(),
    };
    let empty_range = rs > re;
    let mut bad = false;
    let pre_t = table_info(pre);
    let post_t = table_info(post);
    let freed: Vec<u64> = log.iter().filter(|e| e.dealloc).filter_map(|e| e.frame).collect();
    rep.count("cleanups", 1);
    rep.count("frames_deallocated", freed.len() as u64);
    let mut seen = BTreeSet::new();
    for f in freed.iter() {
        if !seen.insert(*f) {
            viol(rep, env, "C10", format!("{}|{}|frame-deallocated-twice", kname, opn), op, vec![("frame", J::hex(*f))]);
            bad = true;
            continue;
        }
        if *f == pre.root {
            viol(rep, env, "C10", format!("{}|{}|deallocated-level-4-table", kname, opn), op, vec![]);
            bad = true;
            continue;
        }
        match pre_t.get(f) {
            None => {
                viol(rep, env, "C10", format!("{}|{}|deallocated-frame-that-is-not-a-table", kname, opn), op, vec![("frame", J::hex(*f))]);
                bad = true;
            }
            Some(infos) => {
                let ti = &infos[0];
                let span = 1u64 << (12 + 9 * ti.level as u32);
                let (ts, te) = (ti.vbase, ti.vbase + span - 0x1000);
                if empty_range || te < rs || ts > re {
                    viol(rep, env, "C10", format!("{}|{}|deallocated-table-outside-range|level{}", kname, opn, ti.level), op, vec![("frame", J::hex(*f)), ("table_base", J::hex(sx(ts)))]);
                    bad = true;
                }
                // entirely empty: all its entries (pre) must have been tables that were freed as well
                if !table_empty_once_freed_children_are_gone(pre, *f, &freed) {
                    viol(rep, env, "C10", format!("{}|{}|deallocated-table-that-still-holds-an-entry|level{}", kname, opn, ti.level), op, vec![("frame", J::hex(*f)), ("table_base", J::hex(sx(ts)))]);
                    bad = true;
                }
                // unlinked afterwards
                if post_t.contains_key(f) {
                    viol(rep, env, "C10", format!("{}|{}|deallocated-table-still-linked|level{}", kname, opn, ti.level), op, vec![("frame", J::hex(*f))]);
                    bad = true;
                }
            }
        }
    }
    // tables that disappeared from the hierarchy must have been deallocated
    for (f, infos) in pre_t.iter() {
        if !post_t.contains_key(f) && !seen.contains(f) {
            viol(rep, env, "C10", format!("{}|{}|table-unlinked-but-not-deallocated|level{}", kname, opn, infos[0].level), op, vec![("frame", J::hex(*f))]);
            bad = true;
        }
    }
    // no empty table wholly inside the range left behind
    for (f, infos) in post_t.iter() {
        for ti in infos {
            let span = 1u64 << (12 + 9 * ti.level as u32);
            let (ts, te) = (ti.vbase, ti.vbase + span - 0x1000);
            if !empty_range && ts >= rs && te <= re && ti.entries == 0 {
                viol(rep, env, "C10", format!("{}|{}|empty-table-inside-range-left-behind|level{}", kname, opn, ti.level), op, vec![("frame", J::hex(*f)), ("table_base", J::hex(sx(ts)))]);
                bad = true;
            }
        }
    }
    // translations unchanged
    if leaves_of(pre) != leaves_of(post) {
        viol(rep, env, "C01", format!("{}|{}|translation-changed-by-clean-up", kname, opn), op, vec![]);
        viol(rep, env, "C10", format!("{}|{}|translation-changed", kname, opn), op, vec![]);
        bad = true;
    }
    // tables not overlapping the range untouched (structure + raw flags): compare subtrees
    if !bad {
        if let Some(d) = untouched_violation(&pre.kids, &post.kids, 4, 0, rs, re, empty_range) {
            viol(rep, env, "C10", format!("{}|{}|table-outside-range-modified", kname, opn), op, vec![("at", J::hex(sx(d)))]);
            bad = true;
        }
    }
    // garbage / dangling entries must not appear
    if !bad && has_garbage(&post.kids) && !has_garbage(&pre.kids) {
        viol(rep, env, "C10", format!("{}|{}|garbage-entry-after-clean-up", kname, opn), op, vec![]);
        bad = true;
    }
    let cls = format!("freed={}|range={}", match freed.len() { 0 => "0", 1 => "1", 2..=3 => "2-3", _ => "4+" }, if empty_range { "empty" } else if rs == re { "single" } else if rs == 0 && re == 0xffff_ffff_f000 { "whole" } else if rs < (1 << 47) && re >= (1 << 47) { "spans-gap" } else { "sub" });
    rep.class(&format!("{}|{}|{}", kname, opn, cls));
    // idempotence: a second identical clean-up frees nothing
    if !bad {
        let mut st = env.arena.st();
        st.begin_call();
        let o2 = env.exec(op);
        let mut st = env.arena.st();
        let n2 = st.log.iter().filter(|e| e.dealloc).count();
        rep.eval();
        if n2 != 0 || !matches!(o2, Out::Clean) {
            viol(rep, env, "C10", format!("{}|{}|repeated-clean-up-deallocated-or-failed", kname, opn), op, vec![("second_run_deallocations", J::U(n2 as u64)), ("second_result", J::s(o2.short()))]);
            bad = true;
        }
        let root = env.arena.root_phys();
        let post2 = hwwalk::dump_skip(&env.arena.st(), root, env.rec);
        if post2.kids != post.kids {
            viol(rep, env, "C10", format!("{}|{}|repeated-clean-up-changed-tables", kname, opn), op, vec![]);
            bad = true;
        }
    }
    bad
}

/// the table `frame` holds no entry except links to tables that were themselves deallocated by this call
fn table_empty_once_freed_children_are_gone(d: &Dump, frame: u64, freed: &[u64]) -> bool {
    fn find<'a>(k: &'a BTreeMap<u16, hwwalk::RNode>, frame: u64) -> Option<&'a BTreeMap<u16, hwwalk::RNode>> {
        for n in k.values() {
            if let hwwalk::RNode::Table { frame: f, kids, .. } = n {
                if *f == frame {
                    return Some(kids);
                }
                if let Some(x) = find(kids, frame) {
                    return Some(x);
                }
            }
        }
        None
    }
    fn ok(k: &BTreeMap<u16, hwwalk::RNode>, freed: &[u64]) -> bool {
        k.values().all(|n| match n {
            hwwalk::RNode::Table { frame, kids, .. } => freed.contains(frame) && ok(kids, freed),
            _ => false,
        })
    }
    match find(&d.kids, frame) {
        Some(k) => ok(k, freed),
        None => true,
    }
}

fn has_garbage(k: &BTreeMap<u16, hwwalk::RNode>) -> bool {
    k.values().any(|n| match n {
        hwwalk::RNode::Table { kids, .. } => has_garbage(kids),
        hwwalk::RNode::Leaf { .. } => false,
        _ => true,
    })
}

/// Some(va) if a table that does not overlap [rs,re] differs between pre and post
fn untouched_violation(pre: &BTreeMap<u16, hwwalk::RNode>, post: &BTreeMap<u16, hwwalk::RNode>, level: u8, base: u64, rs: u64, re: u64, empty: bool) -> Option<u64> {
    let keys: BTreeSet<u16> = pre.keys().chain(post.keys()).copied().collect();
    for i in keys {
        let b = base | ((i as u64) << (12 + 9 * (level as u32 - 1)));
        let span = 1u64 << (12 + 9 * (level as u32 - 1));
        let (ts, te) = (b, b + span - 0x1000);
        let overlaps = !empty && !(te < rs || ts > re);
        match (pre.get(&i), post.get(&i)) {
            (Some(a), Some(c)) => {
                if !overlaps {
                    if a != c {
                        return Some(b);
                    }
                } else if let (hwwalk::RNode::Table { kids: ka, raw: ra, frame: fa }, hwwalk::RNode::Table { kids: kc, raw: rc, frame: fc }) = (a, c) {
                    if ra != rc || fa != fc {
                        return Some(b);
                    }
                    if let Some(x) = untouched_violation(ka, kc, level - 1, b, rs, re, empty) {
                        return Some(x);
                    }
                } else if a != c {
                    // a leaf inside the range must be identical too
                    if !matches!(a, hwwalk::RNode::Table { .. }) {
                        return Some(b);
                    }
                }
            }
            (Some(a), None) => {
                // removed entry: must be a table overlapping the range
                if !overlaps || !matches!(a, hwwalk::RNode::Table { .. }) {
                    return Some(b);
                }
            }
            (None, Some(_)) => return Some(b),
            (None, None) => {}
        }
    }
    None
}

// ------------------------------------------------------------------------------------------------
// history driver
// ------------------------------------------------------------------------------------------------

pub fn run_history(kind: Kind, r: &mut Rng, rep: &mut Report, focus: &str, len: usize, nframes: usize, enumerate_faults: bool, mon: &Monitors) {
    run_history_ext(kind, r, rep, focus, len, nframes, enumerate_faults, mon, false)
}

/// `ext`: extended-domain history. Leaf flags may lack PRESENT (guard pages), parent flags may lack PRESENT or carry
/// HUGE_PAGE - states outside the quantifiers of C01/C02, in which the documentation defines no outcome. Such
/// histories run with the model-independent monitors only (what a failed call may change, allocation discipline
/// judged from raw memory, byte diff, clean-up clauses, frame_to_pointer / software-MMU targets).
pub fn run_history_ext(kind: Kind, r: &mut Rng, rep: &mut Report, focus: &str, len: usize, nframes: usize, enumerate_faults: bool, mon: &Monitors, ext: bool) {
    let mut env = new_env(kind, r, nframes);
    env.desynced = ext;
    env.corrupt = ext && r.chance(1, 2);
    env.ext = ext;
    env.focus = match focus {
        "c01" => vec!["C01", "C11"],
        "c02" => vec!["C02"],
        "c09" => vec!["C09"],
        "c10" => vec!["C10"],
        "c20" => vec!["C20"],
        _ => Vec::new(),
    };
    let u = universe(r, env.rec);
    rep.count("histories", 1);
    accessors(&env, rep);
    let saved0 = if !ext && !cfg!(miri) { Some(save(&env)) } else { None };
    let mut lifetime_trace: Vec<(Op, String)> = Vec::new();
    for _ in 0..len {
        let mut op = gen_op(r, &env, &u, focus);
        if env.ext {
            // leave the documented domain now and then
            match &mut op {
                // guard pages: a leaf keeps its frame but loses PRESENT
                Op::UpdateFlags { flags, .. } if r.chance(1, 3) => *flags &= !P,
                // a parent entry is disabled (and usually re-enabled by a later set_flags / map_to)
                Op::SetParent { flags, .. } if r.chance(1, 3) => *flags &= !P,
                // a level-3 / level-2 entry that points to a table is declared a huge page (its "frame" is then only
                // 4 KiB aligned); only the model-free monitors run in these histories
                Op::SetParent { flags, n, .. } if env.corrupt && *n < 4 && r.chance(1, 2) => *flags |= 0x80,
                _ => {}
            }
        }
        // C02 fault enumeration: fork the state at every map call that needs allocations
        if enumerate_faults && !env.ext && matches!(op, Op::Map { .. } | Op::IdentityMap { .. }) {
            let mut probe_model = env.model.clone();
            let dry = model_apply(&mut probe_model, &op, Fail::none());
            let k = dry.requests;
            if k >= 1 && env.arena.st().free_count() >= k {
                for j in 1..=k {
                    let saved = save(&env);
                    let res = step(&mut env, &op, Fail { at: Some(j) }, rep, r, mon);
                    rep.count("failure_points_enumerated", 1);
                    if !matches!(res.out, Out::MapErr(ref e) if e == "FrameAllocationFailed") && !res.violated {
                        viol(rep, &env, "C02", format!("{}|{}|injected-allocation-failure-not-reported", kind.name(), op.name()), &op, vec![("fail_request", J::U(j as u64)), ("got", J::s(res.out.short()))]);
                    }
                    rep.class(&format!("{}|{}|fail-request-{}-of-{}", kind.name(), op.name(), j, k));
                    restore(&mut env, saved);
                }
                // "or all": every request of the call fails (a mapper that went on after the first failure would be
                // seen asking again)
                {
                    let saved = save(&env);
                    env.fail_all_next = true;
                    let res = step(&mut env, &op, Fail { at: Some(1) }, rep, r, mon);
                    env.fail_all_next = false;
                    rep.count("failure_points_enumerated", 1);
                    if !matches!(res.out, Out::MapErr(ref e) if e == "FrameAllocationFailed") && !res.violated {
                        viol(rep, &env, "C02", format!("{}|{}|injected-allocation-failure-not-reported", kind.name(), op.name()), &op, vec![("fail_request", J::s("all")), ("got", J::s(res.out.short()))]);
                    }
                    rep.class(&format!("{}|{}|fail-all-of-{}", kind.name(), op.name(), k));
                    restore(&mut env, saved);
                }
            }
        }
        let res = step(&mut env, &op, Fail::none(), rep, r, mon);
        if res.violated {
            rep.count("histories_abandoned_after_violation", 1);
            return;
        }
        lifetime_trace.push((op.clone(), res.out.short()));
    }
    // A mapper may be kept for a whole history, not built afresh for every call: the same calls through ONE mapper object,
    // from the same initial memory and allocator state, must report the same outcomes and leave the same hierarchy
    // (up to the frames chosen for tables). In-domain histories that were not de-synchronised only.
    if let Some(s0) = saved0 {
        if !env.desynced && !lifetime_trace.is_empty() {
            let root = env.arena.root_phys();
            let first = hwwalk::dump_skip(&env.arena.st(), root, env.rec);
            let hist = env.history.clone();
            let model_end = env.model.clone();
            restore(&mut env, s0);
            {
                let mut st = env.arena.st();
                st.begin_call();
                st.fail_at = None;
            }
            crate::util::fault_means("C09", format!("{}|history-through-one-mapper-object|fatal-fault-in-mapper-code", kind.name()), J::obj(vec![("env", J::s(env.desc.clone()))]));
            let mut replay_wild: Vec<(Op, u64, String)> = Vec::new();
            let mut replay_f2p: Vec<(Op, u64)> = Vec::new();
            let outs: Result<Vec<String>, String> = env.bracket(|| {
                catch_msg(|| {
                    let mut alloc = env.arena.allocator();
                    with_mapper!(env, |m| {
                        let mut v: Vec<String> = Vec::new();
                        for (op, _) in lifetime_trace.iter() {
                            // memory-safety monitors of the replay: which frames are free before the call, and their bytes
                            let (free_before, snap): (Vec<usize>, Vec<u64>) = {
                                let mut st = env.arena.st();
                                st.begin_call();
                                st.fail_at = None;
                                ((0..st.n()).filter(|&i| st.role[i] == Role::Free || st.role[i] == Role::Data).collect(), st.snapshot())
                            };
                            // a panic ends one call, not the replay (the mapper object lives on, as after catch_unwind)
                            let o = match catch_msg(|| exec_on(&mut m, op, &mut alloc)) {
                                Ok(o) => o,
                                Err(msg) => Out::Panic(msg),
                            };
                            v.push(o.short());
                            {
                                let st = env.arena.st();
                                let released: Vec<usize> = st.poison_copy.iter().map(|x| x.0).collect();
                                if let Some(&i) = free_before.iter().find(|&&i| (st.role[i] == Role::Free || st.role[i] == Role::Data) && !released.contains(&i) && (0..512).any(|k| st.read(i, k) != snap[i * 512 + k])) {
                                    replay_wild.push((op.clone(), st.phys[i], format!("{:?}", st.role[i])));
                                }
                                if let Some(b) = st.f2p_log.iter().find(|x| !x.1) {
                                    replay_f2p.push((op.clone(), b.0));
                                }
                            }
                            // the software MMU's on-demand pages are its TLB: flushed between calls, as after every call of
                            // the per-call runs (the mapper keeps only the address of the level-4 table)
                            #[cfg(not(miri))]
                            if env.kind == Kind::Recursive {
                                let mp = &**env.mmu.as_ref().unwrap() as *const SoftMmu as *mut SoftMmu;
                                unsafe {
                                    (*mp).flush();
                                    let _ = (*mp).take_log();
                                }
                            }
                        }
                        v
                    })
                })
            });
            crate::util::fault_means_nothing();
            env.last_pf.borrow_mut().clear();
            rep.count("histories_replayed_through_one_mapper_object", 1);
            rep.eval();
            let second = hwwalk::dump_skip(&env.arena.st(), root, env.rec);
            let tail = |i: usize| J::A(lifetime_trace[i.saturating_sub(8)..=i.min(lifetime_trace.len() - 1)].iter().map(|(o, out)| J::obj(vec![("op", o.to_json()), ("outcome_with_a_fresh_mapper_per_call", J::s(out.clone()))])).collect());
            match outs {
                Err(m) => rep.violation_for("C01", &format!("{}|history-through-one-mapper-object|panic", kind.name()), J::obj(vec![("env", J::s(env.desc.clone())), ("panic", J::s(m))])),
                Ok(o2) => {
                    if let Some(i) = (0..o2.len()).find(|&i| o2[i] != lifetime_trace[i].1) {
                        rep.violation_for("C01", &format!("{}|{}|history-through-one-mapper-object|outcome-differs-from-fresh-mapper-per-call", kind.name(), lifetime_trace[i].0.name()), J::obj(vec![("env", J::s(env.desc.clone())), ("step", J::U(i as u64)), ("outcome_with_one_mapper_object", J::s(o2[i].clone())), ("calls_up_to_there", tail(i))]));
                    } else if let Err(d) = same_hierarchy(&first.kids, &second.kids, &mut Vec::new()) {
                        rep.violation_for("C01", &format!("{}|history-through-one-mapper-object|tables-differ-from-fresh-mapper-per-call", kind.name()), J::obj(vec![("env", J::s(env.desc.clone())), ("difference(first = fresh mapper per call)", J::s(d)), ("last_calls", tail(lifetime_trace.len() - 1))]));
                    }
                }
            }
            if let Some((op, ph, role)) = replay_wild.first() {
                rep.violation_for("C09", &format!("{}|{}|history-through-one-mapper-object|modified-non-table-memory|{}-frame", kind.name(), op.name(), role), J::obj(vec![("env", J::s(env.desc.clone())), ("op", op.to_json()), ("frame", J::hex(*ph))]));
            }
            if let Some((op, ph)) = replay_f2p.first() {
                rep.violation_for("C09", &format!("{}|{}|history-through-one-mapper-object|frame_to_pointer-for-non-table-frame", kind.name(), op.name()), J::obj(vec![("env", J::s(env.desc.clone())), ("op", op.to_json()), ("frame", J::hex(*ph))]));
            }
            env.model = model_end;
            env.history = hist;
        }
    }
    if rep.want_sample() {
        let h = &env.history;
        rep.sample(J::obj(vec![("impl", J::s(kind.name())), ("env", J::s(env.desc.clone())), ("ops", J::A(h[..h.len().min(12)].to_vec())), ("length", J::U(h.len() as u64)), ("leaves_at_end", J::U(env.model.leaves().len() as u64)), ("tables_at_end", J::U(env.model.tables().len() as u64))]));
    }
}

pub struct Saved {
    mem: Vec<u64>,
    model: Model,
    role: Vec<Role>,
    recycled: Vec<usize>,
    ever: Vec<bool>,
    rng: Rng,
    table_frames: BTreeMap<u64, u8>,
    hist_len: usize,
}

pub fn save(env: &Env) -> Saved {
    let mut st = env.arena.st();
    Saved { mem: st.snapshot(), model: env.model.clone(), role: st.role.clone(), recycled: st.recycled.clone(), ever: st.ever_allocated.clone(), rng: st.rng.clone(), table_frames: st.table_frames.clone(), hist_len: env.history.len() }
}

pub fn restore(env: &mut Env, s: Saved) {
    let mut st = env.arena.st();
    st.restore(&s.mem);
    st.role = s.role;
    st.recycled = s.recycled;
    st.ever_allocated = s.ever;
    st.rng = s.rng;
    st.table_frames = s.table_frames;
    env.model = s.model;
    env.history.truncate(s.hist_len);
}

pub fn run(a: &Args, rep: &mut Report, focus: &str) {
    #[cfg(not(miri))]
    crate::trapemu::install();
    let mut r = Rng::derive(a.seed, &format!("paging-{}", focus), a.shard);
    let under_miri = cfg!(miri);
    let histories = if under_miri { a.get_u64("histories", 2) } else { a.budget(if focus == "c02" { 600 } else { 1500 }, if focus == "c02" { 60_000 } else { 120_000 }) };
    let kinds: Vec<Kind> = match a.get("impl") {
        Some("mapped") => vec![Kind::Mapped],
        Some("offset") => vec![Kind::Offset],
        Some("recursive") => vec![Kind::Recursive],
        _ => {
            if under_miri {
                vec![Kind::Mapped, Kind::Offset]
            } else {
                // the software MMU costs ~1 ms per call (page faults): give it every ninth history
                vec![Kind::Mapped, Kind::Offset, Kind::Mapped, Kind::Offset, Kind::Recursive, Kind::Mapped, Kind::Offset, Kind::Mapped, Kind::Offset]
            }
        }
    };
    for h in 0..histories {
        let kind = kinds[(h as usize) % kinds.len()];
        let len = if under_miri { a.get_u64("len", 40) as usize } else { 20 + r.below(181) as usize };
        let nframes = if under_miri { a.get_u64("frames", 14) as usize } else { 32 + r.below(40) as usize };
        // the interpreter is ~10^4 times slower: under Miri the tool itself judges memory safety, the monitors keep
        // only the dump-vs-model comparison and a few probes
        let mon = Monitors { probes: a.get_u64("probes", 1) != 0, bytediff: a.get_u64("bytediff", if under_miri { 0 } else { 1 }) != 0, max_probes: a.get_u64("max_probes", if under_miri { 3 } else { 0 }) as usize };
        // every sixth history leaves the documented domain (model-independent monitors only)
        let ext = !under_miri && h % 6 == 5 && focus != "c20";
        run_history_ext(kind, &mut r, rep, focus, len, nframes, focus == "c02" && !under_miri, &mon, ext);
        if ext {
            rep.count("extended_domain_histories", 1);
        }
    }
}
