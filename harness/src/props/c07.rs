//! C07 — address arithmetic is exact-or-panic; ranges iterate exactly what they count.
//! Oracle: i128 arithmetic; iteration compared item by item.  Both build profiles are mandatory.

use crate::gen::{self, is_canonical};
use crate::util::{catch, profile_name, Args, Report, Rng, J};
use x86_64::structures::paging::{Page, PageSize, PhysFrame, Size1GiB, Size2MiB, Size4KiB};
use x86_64::{PhysAddr, VirtAddr};

fn o(x: Result<u64, ()>) -> J {
    match x {
        Ok(v) => J::hex(v),
        Err(()) => J::s("panic"),
    }
}

#[derive(Clone, Copy, PartialEq)]
enum Kind {
    Virt,
    Phys,
}

fn valid(k: Kind, x: i128) -> bool {
    if x < 0 || x > u64::MAX as i128 {
        return false;
    }
    match k {
        Kind::Virt => is_canonical(x as u64),
        Kind::Phys => (x as u64) >> 52 == 0,
    }
}

/// judge `got` against the exact result `exact` (None = not representable => must panic)
fn judge(rep: &mut Report, op: &str, k: Kind, exact: i128, got: Result<u64, ()>, ctx: &dyn Fn() -> J) -> &'static str {
    let representable = valid(k, exact);
    match got {
        Err(()) => "panic",
        Ok(g) => {
            if representable && g as i128 == exact {
                "exact"
            } else {
                let why = if exact > u64::MAX as i128 {
                    "sum>=2^64|wrapped"
                } else if exact < 0 {
                    "negative|wrapped"
                } else if !representable {
                    "invalid-result|returned"
                } else {
                    "in-range|wrong-value"
                };
                rep.violation(
                    &format!("{}|{}|{}", profile_name(), op, why),
                    J::obj(vec![("op", J::s(op)), ("profile", J::s(profile_name())), ("exact", J::s(format!("{:#x}", exact))), ("got", J::hex(g)), ("ctx", ctx())]),
                );
                "wrong"
            }
        }
    }
}

fn addr_arith(rep: &mut Report, r: &mut Rng) {
    rep.eval();
    let (a, ca) = gen::canon(r);
    let (n, cn) = match r.below(4) {
        0 => (0u64.wrapping_sub(a).wrapping_add(r.below(5)).wrapping_sub(2), "to-2^64"),
        1 => ((1u64 << 47).wrapping_sub(a).wrapping_add(r.below(5)).wrapping_sub(2), "to-gap"),
        _ => gen::u64_edge(r),
    };
    let va = VirtAddr::new(a);
    let ctx = || J::obj(vec![("lhs", J::hex(a)), ("rhs", J::hex(n))]);
    let c1 = judge(rep, "VirtAddr+u64", Kind::Virt, a as i128 + n as i128, catch(|| (va + n).as_u64()), &ctx);
    let c2 = judge(rep, "VirtAddr-u64", Kind::Virt, a as i128 - n as i128, catch(|| (va - n).as_u64()), &ctx);
    judge(rep, "VirtAddr+=u64", Kind::Virt, a as i128 + n as i128, catch(|| { let mut b = va; b += n; b.as_u64() }), &ctx);
    judge(rep, "VirtAddr-=u64", Kind::Virt, a as i128 - n as i128, catch(|| { let mut b = va; b -= n; b.as_u64() }), &ctx);
    rep.class(&format!("virt|{}|{}|{}|add={}|sub={}", gen::half(a), ca, cn, c1, c2));
    // VirtAddr - VirtAddr
    let (b, _) = if r.chance(1, 2) { gen::canon(r) } else { (gen::sign_extend48(a.wrapping_add(r.below(64)).wrapping_sub(32)), "near") };
    let vb = VirtAddr::new(b);
    let ctx2 = || J::obj(vec![("lhs", J::hex(a)), ("rhs", J::hex(b))]);
    let exact = a as i128 - b as i128;
    match catch(|| va - vb) {
        Err(()) => {}
        Ok(g) => {
            if exact < 0 || g as i128 != exact {
                rep.violation(&format!("{}|VirtAddr-VirtAddr|{}", profile_name(), if exact < 0 { "negative|wrapped" } else { "wrong-value" }), ctx2());
            }
        }
    }
    // PhysAddr
    let (p, cp) = gen::phys(r);
    let (m, cm) = match r.below(4) {
        0 => (0u64.wrapping_sub(p).wrapping_add(r.below(5)).wrapping_sub(2), "to-2^64"),
        1 => ((1u64 << 52).wrapping_sub(p).wrapping_add(r.below(5)).wrapping_sub(2), "to-2^52"),
        _ => gen::u64_edge(r),
    };
    let pa = PhysAddr::new(p);
    let ctx = || J::obj(vec![("lhs", J::hex(p)), ("rhs", J::hex(m))]);
    let c1 = judge(rep, "PhysAddr+u64", Kind::Phys, p as i128 + m as i128, catch(|| (pa + m).as_u64()), &ctx);
    let c2 = judge(rep, "PhysAddr-u64", Kind::Phys, p as i128 - m as i128, catch(|| (pa - m).as_u64()), &ctx);
    judge(rep, "PhysAddr+=u64", Kind::Phys, p as i128 + m as i128, catch(|| { let mut b = pa; b += m; b.as_u64() }), &ctx);
    judge(rep, "PhysAddr-=u64", Kind::Phys, p as i128 - m as i128, catch(|| { let mut b = pa; b -= m; b.as_u64() }), &ctx);
    rep.class(&format!("phys|{}|{}|add={}|sub={}", cp, cm, c1, c2));
    let (q, _) = gen::phys(r);
    let exact = p as i128 - q as i128;
    match catch(|| pa - PhysAddr::new(q)) {
        Err(()) => {}
        Ok(g) => {
            if exact < 0 || g as i128 != exact {
                rep.violation(&format!("{}|PhysAddr-PhysAddr|{}", profile_name(), if exact < 0 { "negative|wrapped" } else { "wrong-value" }), J::obj(vec![("lhs", J::hex(p)), ("rhs", J::hex(q))]));
            }
        }
    }
}

fn page_count(r: &mut Rng, start: u64, unit: u64, top: u128) -> (u64, &'static str) {
    match r.below(8) {
        0 => ((((top - start as u128) / unit as u128) as u64).wrapping_add(r.below(3)).wrapping_sub(1), "to-top"),
        1 => (u64::MAX / unit + r.below(3), "mul-wrap-edge"),
        2 => ((1u64 << 52).wrapping_add(r.below(3)), "2^52+"),
        3 => ((u64::MAX / unit).wrapping_add(1).wrapping_mul(r.below(4) + 1).wrapping_add(r.below(16)), "mul-wrap-small-residue"),
        4 => (r.below(4096), "small"),
        5 => (start / unit + r.below(3), "to-zero"),
        _ => {
            let (v, _) = gen::u64_edge(r);
            (v, "edge")
        }
    }
}

fn page_arith<S: PageSize>(rep: &mut Report, r: &mut Rng, tag: &str) {
    rep.eval();
    let (a, _) = gen::canon(r);
    let a = a & !(S::SIZE - 1);
    let top: u128 = if a >> 47 == 0 { 1 << 47 } else { 1 << 64 };
    let (n, cn) = page_count(r, a, S::SIZE, top);
    let pa = Page::<S>::containing_address(VirtAddr::new(a));
    let ctx = || J::obj(vec![("page", J::hex(a)), ("size", J::s(tag)), ("rhs", J::hex(n))]);
    let ea = a as i128 + n as i128 * S::SIZE as i128;
    let es = a as i128 - n as i128 * S::SIZE as i128;
    let c1 = judge(rep, &format!("Page<{}>+u64", tag), Kind::Virt, ea, catch(|| (pa + n).start_address().as_u64()), &ctx);
    let c2 = judge(rep, &format!("Page<{}>-u64", tag), Kind::Virt, es, catch(|| (pa - n).start_address().as_u64()), &ctx);
    judge(rep, &format!("Page<{}>+=u64", tag), Kind::Virt, ea, catch(|| { let mut b = pa; b += n; b.start_address().as_u64() }), &ctx);
    judge(rep, &format!("Page<{}>-=u64", tag), Kind::Virt, es, catch(|| { let mut b = pa; b -= n; b.start_address().as_u64() }), &ctx);
    rep.class(&format!("page{}|{}|{}|add={}|sub={}", tag, gen::half(a), cn, c1, c2));
    // Page - Page
    let (b, _) = gen::canon(r);
    let b = b & !(S::SIZE - 1);
    let pb = Page::<S>::containing_address(VirtAddr::new(b));
    let exact = (a as i128 - b as i128) / S::SIZE as i128;
    match catch(|| pa - pb) {
        Err(()) => {}
        Ok(g) => {
            if (a as i128) < (b as i128) || g as i128 != exact {
                rep.violation(&format!("{}|Page<{}>-Page|wrong", profile_name(), tag), J::obj(vec![("lhs", J::hex(a)), ("rhs", J::hex(b)), ("got", J::hex(g))]));
            }
        }
    }
    // frames
    let (p, _) = gen::phys(r);
    let p = p & !(S::SIZE - 1);
    let (m, cm) = page_count(r, p, S::SIZE, 1 << 52);
    let fa = PhysFrame::<S>::containing_address(PhysAddr::new(p));
    let ctx = || J::obj(vec![("frame", J::hex(p)), ("size", J::s(tag)), ("rhs", J::hex(m))]);
    let ea = p as i128 + m as i128 * S::SIZE as i128;
    let es = p as i128 - m as i128 * S::SIZE as i128;
    let c1 = judge(rep, &format!("PhysFrame<{}>+u64", tag), Kind::Phys, ea, catch(|| (fa + m).start_address().as_u64()), &ctx);
    let c2 = judge(rep, &format!("PhysFrame<{}>-u64", tag), Kind::Phys, es, catch(|| (fa - m).start_address().as_u64()), &ctx);
    judge(rep, &format!("PhysFrame<{}>+=u64", tag), Kind::Phys, ea, catch(|| { let mut b = fa; b += m; b.start_address().as_u64() }), &ctx);
    judge(rep, &format!("PhysFrame<{}>-=u64", tag), Kind::Phys, es, catch(|| { let mut b = fa; b -= m; b.start_address().as_u64() }), &ctx);
    rep.class(&format!("frame{}|{}|add={}|sub={}", tag, cm, c1, c2));
    let (q, _) = gen::phys(r);
    let q = q & !(S::SIZE - 1);
    let fb = PhysFrame::<S>::containing_address(PhysAddr::new(q));
    let exact = (p as i128 - q as i128) / S::SIZE as i128;
    match catch(|| fa - fb) {
        Err(()) => {}
        Ok(g) => {
            if p < q || g as i128 != exact {
                rep.violation(&format!("{}|PhysFrame<{}>-PhysFrame|wrong", profile_name(), tag), J::obj(vec![("lhs", J::hex(p)), ("rhs", J::hex(q)), ("got", J::hex(g))]));
            }
        }
    }
}

/// where a range is positioned; start page index = end_anchor - len (+/- for exclusive)
fn end_class(end: u64, unit: u64, virt: bool) -> &'static str {
    if virt {
        if end == 0x7fff_ffff_ffffu64 & !(unit - 1) {
            "end=last_page_lower_half"
        } else if end == u64::MAX & !(unit - 1) {
            "end=last_page_upper_half"
        } else if end == 0xffff_8000_0000_0000 {
            "end=first_page_upper_half"
        } else if end == 0 {
            "end=page0"
        } else {
            "end=interior"
        }
    } else if end == ((1u64 << 52) - 1) & !(unit - 1) {
        "end=last_frame"
    } else if end == 0 {
        "end=frame0"
    } else {
        "end=interior"
    }
}

/// The other ways of consuming a range iterator (nth, skip, step_by, count, last - an implementation may override any of
/// them) yield the same items as repeated next(): item i is `first + i*unit` for i < len, nothing after, and no panic.
fn iterator_laws<I: Iterator + Clone>(rep: &mut Report, r: &mut Rng, sig: &str, it: &I, first: u64, unit: u64, len: u64, val: &dyn Fn(I::Item) -> u64, ctx: &dyn Fn() -> J) {
    rep.eval();
    // (a) a walk of nth(k) with k drawn around the interesting points; stops at the first expected None
    let mut ks: Vec<u64> = Vec::new();
    let res = catch(|| {
        let mut it = it.clone();
        let mut pos = 0u64;
        let mut ks_l: Vec<u64> = Vec::new();
        for _ in 0..12 {
            let left = len - pos.min(len);
            let k = match r.below(7) {
                0 => 0,
                1 => r.below(4),
                2 => left.saturating_sub(1),
                3 => left,
                4 => left + 1 + r.below(3),
                5 => usize::MAX as u64,
                _ => r.below(left + 2),
            };
            ks_l.push(k);
            let got = it.nth(k as usize).map(|x| val(x));
            let idx = pos as u128 + k as u128;
            let exp = if idx < len as u128 { Some(first + (idx as u64) * unit) } else { None };
            if got != exp {
                return (ks_l, Some((exp, got)));
            }
            if exp.is_none() {
                break;
            }
            pos = idx as u64 + 1;
        }
        (ks_l, None)
    });
    match res {
        Err(()) => rep.violation(&format!("{}::nth|panic", sig), ctx()),
        Ok((k, Some((exp, got)))) => {
            ks = k;
            rep.violation(&format!("{}::nth|wrong-item", sig), J::obj(vec![("ctx", ctx()), ("nth_arguments", J::A(ks.iter().map(|&x| J::hex(x)).collect())), ("expected", exp.map(J::hex).unwrap_or(J::Null)), ("got", got.map(J::hex).unwrap_or(J::Null))]));
        }
        Ok(_) => {}
    }
    let _ = ks;
    // (b) step_by / skip / count / last (bounded: len is at most a few thousand here)
    let step = 1 + r.below(9);
    let sk = r.below(len + 3);
    let res = catch(|| {
        let stepped: Vec<u64> = it.clone().step_by(step as usize).take(len as usize + 8).map(|x| val(x)).collect();
        let ok_step = stepped.len() as u64 == (len + step - 1) / step && stepped.iter().enumerate().all(|(i, &v)| v == first + i as u64 * step * unit);
        let skipped = it.clone().skip(sk as usize).next().map(|x| val(x));
        let ok_skip = skipped == if sk < len { Some(first + sk * unit) } else { None };
        let ok_count = it.clone().take(1 << 20).count() as u64 == len;
        let ok_last = it.clone().take(1 << 20).last().map(|x| val(x)) == if len > 0 { Some(first + (len - 1) * unit) } else { None };
        (ok_step, ok_skip, ok_count, ok_last)
    });
    match res {
        Err(()) => rep.violation(&format!("{}::step_by/skip/count/last|panic", sig), J::obj(vec![("ctx", ctx()), ("step", J::U(step)), ("skip", J::U(sk))])),
        Ok((a, b, c, d)) => {
            if !(a && b && c && d) {
                let which = if !a { "step_by" } else if !b { "skip" } else if !c { "count" } else { "last" };
                rep.violation(&format!("{}::{}|differs-from-next", sig, which), J::obj(vec![("ctx", ctx()), ("step", J::U(step)), ("skip", J::U(sk))]));
            }
        }
    }
}

fn page_ranges<S: PageSize>(rep: &mut Report, r: &mut Rng, tag: &str, maxlen: u64) {
    let unit = S::SIZE;
    // choose end anchor, both bounds in one half
    let hi = r.chance(1, 2);
    let (lo_bound, hi_bound): (u64, u64) = if hi { (0xffff_8000_0000_0000, u64::MAX & !(unit - 1)) } else { (0, 0x7fff_ffff_ffff & !(unit - 1)) };
    let span_pages = (hi_bound - lo_bound) / unit; // index of last page relative to lo_bound
    let len = match r.below(6) {
        0 => 0,
        1 => 1,
        2 => 2,
        _ => r.below(maxlen.min(span_pages) + 1),
    };
    // end page index (inclusive end)
    let end_idx = match r.below(5) {
        0 => span_pages,                                         // last page of the half
        1 => len.saturating_sub(1).min(span_pages),              // range starting at first page of the half
        2 => span_pages - r.below(3.min(span_pages + 1)),        // near the end
        _ => r.below(span_pages + 1),
    };
    let len = len.min(end_idx + 1);
    let end = lo_bound + end_idx * unit;
    // inclusive range [end-len+1 .. end]; len==0 -> start = end+1 if possible else use start>end via swapped
    rep.eval();
    {
        let (s, e, explen) = if len == 0 {
            if end_idx == 0 {
                // cannot build an empty inclusive range ending at page 0 with start>end in the same half other than (1,0)
                (lo_bound + unit.min(hi_bound - lo_bound), lo_bound, if hi_bound == lo_bound { 1 } else { 0 })
            } else {
                (end, end - unit, 0u64)
            }
        } else {
            (end - (len - 1) * unit, end, len)
        };
        let ps = Page::<S>::containing_address(VirtAddr::new(s));
        let pe = Page::<S>::containing_address(VirtAddr::new(e));
        let rg = Page::range_inclusive(ps, pe);
        let ec = end_class(e, unit, true);
        let ctx = || J::obj(vec![("range", J::s(format!("PageRangeInclusive<{}>", tag))), ("start", J::hex(s)), ("end", J::hex(e)), ("expected_len", J::U(explen))]);
        let sigbase = format!("{}|PageRangeInclusive<{}>", profile_name(), tag);
        match catch(|| (rg.len(), rg.size(), rg.is_empty())) {
            Ok((l, sz, em)) => {
                if l != explen {
                    rep.violation(&format!("{}::len|{}|wrong", sigbase, ec), ctx());
                }
                if sz as u128 != (explen as u128 * unit as u128) & (u64::MAX as u128) || em != (explen == 0) {
                    rep.violation(&format!("{}::size|{}|wrong", sigbase, ec), ctx());
                }
            }
            Err(()) => rep.violation(&format!("{}::len|{}|panic", sigbase, ec), ctx()),
        }
        iterator_laws(rep, r, &sigbase, &rg, s, unit, explen, &|p: Page<S>| p.start_address().as_u64(), &ctx);
        let res = catch(|| {
            let mut it = rg;
            let mut i = 0u64;
            loop {
                match it.next() {
                    Some(p) => {
                        if i >= explen || p.start_address().as_u64() != s + i * unit {
                            return Err((i, p.start_address().as_u64()));
                        }
                        i += 1;
                    }
                    None => return Ok(i),
                }
                if i > explen + 2 {
                    return Err((i, 0));
                }
            }
        });
        match res {
            Err(()) => rep.violation(&format!("{}::next|{}|panic", sigbase, ec), ctx()),
            Ok(Err((i, got))) => rep.violation(&format!("{}::next|{}|wrong-item", sigbase, ec), J::obj(vec![("ctx", ctx()), ("index", J::U(i)), ("got", J::hex(got))])),
            Ok(Ok(cnt)) => {
                if cnt != explen {
                    rep.violation(&format!("{}::next|{}|yielded-{}-than-len", sigbase, ec, if cnt < explen { "fewer" } else { "more" }), J::obj(vec![("ctx", ctx()), ("yielded", J::U(cnt))]));
                }
            }
        }
        rep.class(&format!("rangeincl{}|{}|{}|len={}", tag, if hi { "hi" } else { "lo" }, ec, if explen == 0 { "0" } else if explen == 1 { "1" } else { "many" }));
        if rep.want_sample() && r.chance(1, 50) {
            rep.sample(ctx());
        }
    }
    // exclusive range [start .. end_excl) where end_excl = end (so it never includes the last page unless end is beyond)
    rep.eval();
    {
        let e = end;
        let l = len.min(end_idx);
        let s = e - l * unit;
        let ps = Page::<S>::containing_address(VirtAddr::new(s));
        let pe = Page::<S>::containing_address(VirtAddr::new(e));
        let rg = Page::range(ps, pe);
        let ec = end_class(e, unit, true);
        let ctx = || J::obj(vec![("range", J::s(format!("PageRange<{}>", tag))), ("start", J::hex(s)), ("end_excl", J::hex(e)), ("expected_len", J::U(l))]);
        let sigbase = format!("{}|PageRange<{}>", profile_name(), tag);
        match catch(|| (rg.len(), rg.size(), rg.is_empty())) {
            Ok((gl, sz, em)) => {
                if gl != l || sz != l.wrapping_mul(unit) || em != (l == 0) {
                    rep.violation(&format!("{}::len|{}|wrong", sigbase, ec), ctx());
                }
            }
            Err(()) => rep.violation(&format!("{}::len|{}|panic", sigbase, ec), ctx()),
        }
        iterator_laws(rep, r, &sigbase, &rg, s, unit, l, &|p: Page<S>| p.start_address().as_u64(), &ctx);
        let res = catch(|| {
            let mut it = rg;
            let mut i = 0u64;
            loop {
                match it.next() {
                    Some(p) => {
                        if i >= l || p.start_address().as_u64() != s + i * unit {
                            return Err((i, p.start_address().as_u64()));
                        }
                        i += 1;
                    }
                    None => return Ok(i),
                }
            }
        });
        match res {
            Err(()) => rep.violation(&format!("{}::next|{}|panic", sigbase, ec), ctx()),
            Ok(Err((i, got))) => rep.violation(&format!("{}::next|{}|wrong-item", sigbase, ec), J::obj(vec![("ctx", ctx()), ("index", J::U(i)), ("got", J::hex(got))])),
            Ok(Ok(cnt)) => {
                if cnt != l {
                    rep.violation(&format!("{}::next|{}|count-differs-from-len", sigbase, ec), J::obj(vec![("ctx", ctx()), ("yielded", J::U(cnt))]));
                }
            }
        }
        // reversed bounds => empty
        let rv = Page::range(pe, ps);
        if l > 0 && (rv.len() != 0 || !rv.is_empty() || rv.clone().next().is_some()) {
            rep.violation(&format!("{}|reversed-not-empty", sigbase), ctx());
        }
        rep.class(&format!("rangeexcl{}|{}|{}|len={}", tag, if hi { "hi" } else { "lo" }, ec, if l == 0 { "0" } else if l == 1 { "1" } else { "many" }));
    }
}

fn range_2m_as_4k(rep: &mut Report, r: &mut Rng) {
    rep.eval();
    let unit = Size2MiB::SIZE;
    let hi = r.chance(1, 2);
    let lo_bound: u64 = if hi { 0xffff_8000_0000_0000 } else { 0 };
    let span = if hi { (u64::MAX - lo_bound) / unit } else { 0x7fff_ffff_ffff / unit };
    let e_idx = if r.chance(1, 3) { span } else { r.below(span + 1) };
    let l = r.below(64).min(e_idx);
    let e = lo_bound + e_idx * unit;
    let s = e - l * unit;
    let rg = Page::range(Page::<Size2MiB>::containing_address(VirtAddr::new(s)), Page::<Size2MiB>::containing_address(VirtAddr::new(e)));
    let c = rg.as_4kib_page_range();
    if c.start.start_address().as_u64() != s || c.end.start_address().as_u64() != e || c.len() != l * 512 || c.size() != rg.size() {
        rep.violation(&format!("{}|PageRange<2M>::as_4kib_page_range|different-bytes", profile_name()), J::obj(vec![("start", J::hex(s)), ("end", J::hex(e))]));
    }
    rep.class(&format!("as4k|{}|len={}", if hi { "hi" } else { "lo" }, if l == 0 { "0" } else { "many" }));
}

fn frame_ranges<S: PageSize>(rep: &mut Report, r: &mut Rng, tag: &str, maxlen: u64) {
    let unit = S::SIZE;
    let last = ((1u64 << 52) - 1) & !(unit - 1);
    let span = last / unit;
    let len = match r.below(6) {
        0 => 0,
        1 => 1,
        _ => r.below(maxlen.min(span) + 1),
    };
    let end_idx = match r.below(5) {
        0 => span,
        1 => len.saturating_sub(1),
        2 => span - r.below(3),
        _ => r.below(span + 1),
    };
    let len = len.min(end_idx + 1);
    let end = end_idx * unit;
    rep.eval();
    {
        let (s, e, explen) = if len == 0 {
            if end_idx == 0 { (unit, 0, 0u64) } else { (end, end - unit, 0u64) }
        } else {
            (end - (len - 1) * unit, end, len)
        };
        let fs = PhysFrame::<S>::containing_address(PhysAddr::new(s));
        let fe = PhysFrame::<S>::containing_address(PhysAddr::new(e));
        let rg = PhysFrame::range_inclusive(fs, fe);
        let ec = end_class(e, unit, false);
        let ctx = || J::obj(vec![("range", J::s(format!("PhysFrameRangeInclusive<{}>", tag))), ("start", J::hex(s)), ("end", J::hex(e)), ("expected_len", J::U(explen))]);
        let sigbase = format!("{}|PhysFrameRangeInclusive<{}>", profile_name(), tag);
        match catch(|| (rg.len(), rg.size(), rg.is_empty())) {
            Ok((l, sz, em)) => {
                if l != explen || sz != explen.wrapping_mul(unit) || em != (explen == 0) {
                    rep.violation(&format!("{}::len|{}|wrong", sigbase, ec), ctx());
                }
            }
            Err(()) => rep.violation(&format!("{}::len|{}|panic", sigbase, ec), ctx()),
        }
        iterator_laws(rep, r, &sigbase, &rg, s, unit, explen, &|p: PhysFrame<S>| p.start_address().as_u64(), &ctx);
        let res = catch(|| {
            let mut it = rg;
            let mut i = 0u64;
            loop {
                match it.next() {
                    Some(p) => {
                        if i >= explen || p.start_address().as_u64() != s + i * unit {
                            return Err((i, p.start_address().as_u64()));
                        }
                        i += 1;
                    }
                    None => return Ok(i),
                }
            }
        });
        match res {
            Err(()) => rep.violation(&format!("{}::next|{}|panic", sigbase, ec), ctx()),
            Ok(Err((i, got))) => rep.violation(&format!("{}::next|{}|wrong-item", sigbase, ec), J::obj(vec![("ctx", ctx()), ("index", J::U(i)), ("got", J::hex(got))])),
            Ok(Ok(cnt)) => {
                if cnt != explen {
                    rep.violation(&format!("{}::next|{}|count-differs-from-len", sigbase, ec), J::obj(vec![("ctx", ctx()), ("yielded", J::U(cnt))]));
                }
            }
        }
        rep.class(&format!("framerangeincl{}|{}|len={}", tag, ec, if explen == 0 { "0" } else if explen == 1 { "1" } else { "many" }));
    }
    rep.eval();
    {
        let e = end;
        let l = len.min(end_idx);
        let s = e - l * unit;
        let fs = PhysFrame::<S>::containing_address(PhysAddr::new(s));
        let fe = PhysFrame::<S>::containing_address(PhysAddr::new(e));
        let rg = PhysFrame::range(fs, fe);
        let ec = end_class(e, unit, false);
        let ctx = || J::obj(vec![("range", J::s(format!("PhysFrameRange<{}>", tag))), ("start", J::hex(s)), ("end_excl", J::hex(e)), ("expected_len", J::U(l))]);
        let sigbase = format!("{}|PhysFrameRange<{}>", profile_name(), tag);
        match catch(|| (rg.len(), rg.size(), rg.is_empty())) {
            Ok((gl, sz, em)) => {
                if gl != l || sz != l.wrapping_mul(unit) || em != (l == 0) {
                    rep.violation(&format!("{}::len|{}|wrong", sigbase, ec), ctx());
                }
            }
            Err(()) => rep.violation(&format!("{}::len|{}|panic", sigbase, ec), ctx()),
        }
        iterator_laws(rep, r, &sigbase, &rg, s, unit, l, &|p: PhysFrame<S>| p.start_address().as_u64(), &ctx);
        let res = catch(|| {
            let mut it = rg;
            let mut i = 0u64;
            loop {
                match it.next() {
                    Some(p) => {
                        if i >= l || p.start_address().as_u64() != s + i * unit {
                            return Err((i, p.start_address().as_u64()));
                        }
                        i += 1;
                    }
                    None => return Ok(i),
                }
            }
        });
        match res {
            Err(()) => rep.violation(&format!("{}::next|{}|panic", sigbase, ec), ctx()),
            Ok(Err((i, got))) => rep.violation(&format!("{}::next|{}|wrong-item", sigbase, ec), J::obj(vec![("ctx", ctx()), ("index", J::U(i)), ("got", J::hex(got))])),
            Ok(Ok(cnt)) => {
                if cnt != l {
                    rep.violation(&format!("{}::next|{}|count-differs-from-len", sigbase, ec), J::obj(vec![("ctx", ctx()), ("yielded", J::U(cnt))]));
                }
            }
        }
        rep.class(&format!("framerangeexcl{}|{}|len={}", tag, ec, if l == 0 { "0" } else if l == 1 { "1" } else { "many" }));
    }
}

pub fn run(a: &Args, rep: &mut Report) {
    let mut r = Rng::derive(a.seed, "c07", a.shard);
    let n = a.budget(150_000, 30_000_000);
    for _ in 0..n {
        addr_arith(rep, &mut r);
        match r.below(3) {
            0 => page_arith::<Size4KiB>(rep, &mut r, "4K"),
            1 => page_arith::<Size2MiB>(rep, &mut r, "2M"),
            _ => page_arith::<Size1GiB>(rep, &mut r, "1G"),
        }
    }
    let nr = a.budget(6_000, 800_000);
    let maxlen = if cfg!(miri) { 48 } else if a.thorough() { 20_000 } else { 5_000 };
    for i in 0..nr {
        // a few very long ranges in thorough mode
        let ml = if a.thorough() && i % 50_000 == 7 { 1_000_000 } else { maxlen };
        match r.below(3) {
            0 => page_ranges::<Size4KiB>(rep, &mut r, "4K", ml),
            1 => page_ranges::<Size2MiB>(rep, &mut r, "2M", ml),
            _ => page_ranges::<Size1GiB>(rep, &mut r, "1G", ml),
        }
        match r.below(3) {
            0 => frame_ranges::<Size4KiB>(rep, &mut r, "4K", ml),
            1 => frame_ranges::<Size2MiB>(rep, &mut r, "2M", ml),
            _ => frame_ranges::<Size1GiB>(rep, &mut r, "1G", ml),
        }
        range_2m_as_4k(rep, &mut r);
    }
}
