//! C15 — segment/TSS descriptors and the TSS have the architectural encoding.
//! Oracle: an architectural decoder of the 16-byte system descriptor / 8-byte segment descriptor; field offsets
//! measured by pointer arithmetic.

use crate::gen;
use crate::util::{Args, Report, Rng, J};
use x86_64::structures::gdt::{Descriptor, DescriptorFlags};
use x86_64::structures::tss::TaskStateSegment;
use x86_64::structures::DescriptorTablePointer;
use x86_64::{PrivilegeLevel, VirtAddr};

#[derive(Debug, PartialEq, Clone, Copy)]
struct Sys {
    base: u64,
    limit: u32,
    typ: u8,
    s: bool,
    dpl: u8,
    p: bool,
    avl: bool,
    l: bool,
    db: bool,
    g: bool,
    high_reserved: u32,
}

fn decode_sys(lo: u64, hi: u64) -> Sys {
    Sys {
        base: ((lo >> 16) & 0xff_ffff) | (((lo >> 56) & 0xff) << 24) | ((hi & 0xffff_ffff) << 32),
        limit: ((lo & 0xffff) | (((lo >> 48) & 0xf) << 16)) as u32,
        typ: ((lo >> 40) & 0xf) as u8,
        s: (lo >> 44) & 1 == 1,
        dpl: ((lo >> 45) & 3) as u8,
        p: (lo >> 47) & 1 == 1,
        avl: (lo >> 52) & 1 == 1,
        l: (lo >> 53) & 1 == 1,
        db: (lo >> 54) & 1 == 1,
        g: (lo >> 55) & 1 == 1,
        high_reserved: (hi >> 32) as u32,
    }
}

fn tss_desc(rep: &mut Report, p: u64, cls: &str) {
    rep.eval();
    let d = unsafe { Descriptor::tss_segment_unchecked(p as *const TaskStateSegment) };
    match d {
        Descriptor::SystemSegment(lo, hi) => {
            let s = decode_sys(lo, hi);
            let exp = Sys { base: p, limit: 0x67, typ: 0b1001, s: false, dpl: 0, p: true, avl: false, l: false, db: false, g: false, high_reserved: 0 };
            if s != exp {
                let what = if s.base != p {
                    "base-is-not-the-tss-address"
                } else if s.limit != 0x67 {
                    "limit-is-not-0x67"
                } else if s.typ != 0b1001 || s.s {
                    "type-is-not-available-64bit-tss"
                } else if !s.p || s.dpl != 0 {
                    "present-or-dpl-wrong"
                } else {
                    "reserved-bits-not-zero"
                };
                rep.violation(&format!("tss_segment_unchecked|{}", what), J::obj(vec![("tss", J::hex(p)), ("low", J::hex(lo)), ("high", J::hex(hi)), ("decoded", J::s(format!("{:x?}", s)))]));
            }
            if d.dpl() != PrivilegeLevel::Ring0 {
                rep.violation("tss_segment_unchecked|dpl()-not-ring0", J::hex(p));
            }
        }
        Descriptor::UserSegment(_) => rep.violation("tss_segment_unchecked|not-a-system-segment", J::hex(p)),
    }
    rep.class(&format!("tss-desc|{}|hi32={}|bits24-31={}", cls, if p >> 32 == 0 { "0" } else { "nz" }, if (p >> 24) & 0xff == 0 { "0" } else { "nz" }));
}

/// The safe constructor takes a reference, so it can look at the TSS: the descriptor must still be a function of the
/// address alone. TSSes with arbitrary contents (stacks, I/O-map base, reserved fields) at addresses that differ in the
/// low bits (offsets inside a buffer), in bits 24..31 and above bit 32 (separate mappings).
fn tss_safe(rep: &mut Report, r: &mut Rng, places: &[(usize, usize)]) {
    rep.eval();
    let (base, len) = *r.pick(places);
    let off = (r.below(((len - 0x68) / 4) as u64) as usize) * 4;
    let p = (base + off) as *mut TaskStateSegment;
    let cls;
    unsafe {
        p.write(TaskStateSegment::new());
        match r.below(4) {
            0 => cls = "fresh",
            1 => {
                cls = "iomap_base-varied";
                let any = r.next() as u16;
                (*p).iomap_base = *r.pick(&[0u16, 0x67, 0x68, 0x69, 0x100, 0x2000, 0xffff, any]);
            }
            2 => {
                cls = "stacks-set";
                for i in 0..3 {
                    (*p).privilege_stack_table[i] = VirtAddr::new_truncate(r.next());
                }
                for i in 0..7 {
                    (*p).interrupt_stack_table[i] = VirtAddr::new_truncate(r.next());
                }
            }
            _ => {
                cls = "everything-random";
                // reserved fields are plain integers: any bytes are valid there
                let b = p as *mut u8;
                for o in (0..4).chain(0x1c..0x24).chain(0x5c..0x66) {
                    b.add(o).write(r.next() as u8);
                }
                for i in 0..3 {
                    (*p).privilege_stack_table[i] = VirtAddr::new_truncate(r.next());
                }
                for i in 0..7 {
                    (*p).interrupt_stack_table[i] = VirtAddr::new_truncate(r.next());
                }
                (*p).iomap_base = r.next() as u16;
            }
        }
    }
    let before: [u8; 0x68] = unsafe { core::ptr::read(p as *const [u8; 0x68]) };
    let st: &'static TaskStateSegment = unsafe { &*p };
    // (a TSS may sit anywhere, also across a page boundary: the buffer offsets cover that)
    let d = match crate::util::catch_msg(|| Descriptor::tss_segment(st)) {
        Ok(d) => d,
        Err(m) => {
            rep.violation("tss_segment|panicked", J::obj(vec![("tss", J::hex(p as u64)), ("page_offset", J::hex(p as u64 & 0xfff)), ("contents", J::s(cls)), ("panic", J::s(m)), ("profile", J::s(crate::util::profile_name()))]));
            return;
        }
    };
    let after: [u8; 0x68] = unsafe { core::ptr::read(p as *const [u8; 0x68]) };
    let addr = p as u64;
    match d {
        Descriptor::SystemSegment(lo, hi) => {
            let s = decode_sys(lo, hi);
            let exp = Sys { base: addr, limit: 0x67, typ: 0b1001, s: false, dpl: 0, p: true, avl: false, l: false, db: false, g: false, high_reserved: 0 };
            if s != exp {
                let what = if s.base != addr {
                    "base-is-not-the-tss-address"
                } else if s.limit != 0x67 {
                    "limit-is-not-0x67"
                } else if s.typ != 0b1001 || s.s {
                    "type-is-not-available-64bit-tss"
                } else if !s.p || s.dpl != 0 {
                    "present-or-dpl-wrong"
                } else {
                    "reserved-bits-not-zero"
                };
                rep.violation(&format!("tss_segment|{}", what), J::obj(vec![("tss", J::hex(addr)), ("contents", J::s(cls)), ("iomap_base", J::hex(u16::from_le_bytes([before[0x66], before[0x67]]) as u64)), ("low", J::hex(lo)), ("high", J::hex(hi)), ("decoded", J::s(format!("{:x?}", s)))]));
            }
            let u = unsafe { Descriptor::tss_segment_unchecked(p) };
            if format!("{:x?}", u) != format!("{:x?}", d) {
                rep.violation("tss_segment|differs-from-tss_segment_unchecked-for-the-same-address", J::obj(vec![("tss", J::hex(addr)), ("contents", J::s(cls)), ("safe", J::s(format!("{:x?}", d))), ("unchecked", J::s(format!("{:x?}", u)))]));
            }
        }
        Descriptor::UserSegment(_) => rep.violation("tss_segment|not-a-system-segment", J::hex(addr)),
    }
    if before != after {
        rep.violation("tss_segment|modified-the-tss", J::hex(addr));
    }
    rep.class(&format!("tss-safe|{}|bits24-31={}|hi32={}", cls, if (addr >> 24) & 0xff == 0 { "0" } else { "nz" }, if addr >> 32 == 0 { "0" } else { "nz" }));
}

fn presets(rep: &mut Report) {
    // (name, bits, executable, long, default_size, dpl)
    let table: [(&str, u64, bool, bool, bool, u8); 6] = [
        ("KERNEL_CODE64", DescriptorFlags::KERNEL_CODE64.bits(), true, true, false, 0),
        ("KERNEL_CODE32", DescriptorFlags::KERNEL_CODE32.bits(), true, false, true, 0),
        ("KERNEL_DATA", DescriptorFlags::KERNEL_DATA.bits(), false, false, true, 0),
        ("USER_CODE64", DescriptorFlags::USER_CODE64.bits(), true, true, false, 3),
        ("USER_CODE32", DescriptorFlags::USER_CODE32.bits(), true, false, true, 3),
        ("USER_DATA", DescriptorFlags::USER_DATA.bits(), false, false, true, 3),
    ];
    for (name, bits, exec, long, dsz, dpl) in table {
        rep.eval();
        let s = decode_sys(bits, 0);
        let is_exec = (bits >> 43) & 1 == 1;
        let ok = s.s && s.p && s.dpl == dpl && is_exec == exec && s.l == long && s.db == dsz && s.g && s.limit == 0xf_ffff && s.base == 0 && ((bits >> 41) & 1 == 1);
        if !ok {
            rep.violation(&format!("DescriptorFlags::{}|does-not-decode-to-its-name", name), J::obj(vec![("bits", J::hex(bits)), ("decoded", J::s(format!("{:x?}", s)))]));
        }
        rep.class(&format!("preset|{}", name));
    }
    let chk = |rep: &mut Report, what: &str, d: Descriptor, bits: u64, dpl: PrivilegeLevel| {
        rep.eval();
        match d {
            Descriptor::UserSegment(v) if v == bits && d.dpl() == dpl => {}
            _ => rep.violation(&format!("{}|wrong-descriptor", what), J::s(format!("{:x?}", d))),
        }
    };
    chk(rep, "kernel_code_segment", Descriptor::kernel_code_segment(), DescriptorFlags::KERNEL_CODE64.bits(), PrivilegeLevel::Ring0);
    chk(rep, "kernel_data_segment", Descriptor::kernel_data_segment(), DescriptorFlags::KERNEL_DATA.bits(), PrivilegeLevel::Ring0);
    chk(rep, "user_code_segment", Descriptor::user_code_segment(), DescriptorFlags::USER_CODE64.bits(), PrivilegeLevel::Ring3);
    chk(rep, "user_data_segment", Descriptor::user_data_segment(), DescriptorFlags::USER_DATA.bits(), PrivilegeLevel::Ring3);
}

fn layouts(rep: &mut Report) {
    rep.eval();
    let t = TaskStateSegment::new();
    let base = &t as *const _ as usize;
    let o_pst = core::ptr::addr_of!(t.privilege_stack_table) as usize - base;
    let o_ist = core::ptr::addr_of!(t.interrupt_stack_table) as usize - base;
    let o_iom = core::ptr::addr_of!(t.iomap_base) as usize - base;
    let size = core::mem::size_of::<TaskStateSegment>();
    if o_pst != 4 || o_ist != 0x24 || o_iom != 0x66 || size != 0x68 {
        rep.violation("TaskStateSegment|layout", J::obj(vec![("privilege_stack_table", J::U(o_pst as u64)), ("interrupt_stack_table", J::U(o_ist as u64)), ("iomap_base", J::U(o_iom as u64)), ("size", J::U(size as u64))]));
    }
    let iom = unsafe { core::ptr::read_unaligned(core::ptr::addr_of!(t.iomap_base)) };
    let bytes: [u8; 0x68] = unsafe { core::ptr::read(&t as *const _ as *const [u8; 0x68]) };
    if iom != 0x68 || u16::from_le_bytes([bytes[0x66], bytes[0x67]]) != 0x68 || bytes[..0x66].iter().any(|&b| b != 0) {
        rep.violation("TaskStateSegment::new|iomap-base-or-zero-init", J::U(iom as u64));
    }
    let d = TaskStateSegment::default();
    let db: [u8; 0x68] = unsafe { core::ptr::read(&d as *const _ as *const [u8; 0x68]) };
    if db != bytes {
        rep.violation("TaskStateSegment::default|differs-from-new", J::Null);
    }
    // stacks are stored as little-endian u64 at 4+8i and 0x24+8i
    let mut t2 = TaskStateSegment::new();
    t2.privilege_stack_table[2] = VirtAddr::new(0x1122_3344_5566);
    t2.interrupt_stack_table[6] = VirtAddr::new(0xffff_8000_dead_b000);
    let b2: [u8; 0x68] = unsafe { core::ptr::read(&t2 as *const _ as *const [u8; 0x68]) };
    let rd = |o: usize| u64::from_le_bytes([b2[o], b2[o + 1], b2[o + 2], b2[o + 3], b2[o + 4], b2[o + 5], b2[o + 6], b2[o + 7]]);
    if rd(4 + 16) != 0x1122_3344_5566 || rd(0x24 + 48) != 0xffff_8000_dead_b000 {
        rep.violation("TaskStateSegment|stack-slots-not-at-architectural-offsets", J::Null);
    }
    rep.class("layout|tss");
    rep.eval();
    let p = DescriptorTablePointer { limit: 0xabcd, base: VirtAddr::new(0xffff_8123_4567_89ab) };
    let pb = &p as *const _ as usize;
    let o_l = core::ptr::addr_of!(p.limit) as usize - pb;
    let o_b = core::ptr::addr_of!(p.base) as usize - pb;
    let raw: [u8; 10] = unsafe { core::ptr::read(&p as *const _ as *const [u8; 10]) };
    if o_l != 0 || o_b != 2 || core::mem::size_of::<DescriptorTablePointer>() != 10 || u16::from_le_bytes([raw[0], raw[1]]) != 0xabcd || u64::from_le_bytes([raw[2], raw[3], raw[4], raw[5], raw[6], raw[7], raw[8], raw[9]]) != 0xffff_8123_4567_89ab {
        rep.violation("DescriptorTablePointer|layout", J::obj(vec![("limit_at", J::U(o_l as u64)), ("base_at", J::U(o_b as u64))]));
    }
    rep.class("layout|descriptor-table-pointer");
}

pub fn run(a: &Args, rep: &mut Report) {
    let mut r = Rng::derive(a.seed, "c15", a.shard);
    layouts(rep);
    presets(rep);
    for k in 0..64 {
        tss_desc(rep, 1u64 << k, "walk1");
        tss_desc(rep, !(1u64 << k), "walk0");
        tss_desc(rep, (1u64 << k).wrapping_sub(1), "pow2-1");
    }
    rep.exhaustive.push("TSS descriptor: walking-one, walking-zero and 2^k-1 pointers for all 64 bit positions".into());
    for &e in gen::EDGES.iter() {
        tss_desc(rep, e, "edge");
    }
    let n = a.budget(4_000_000, 200_000_000);
    for i in 0..n {
        let (p, c) = gen::u64_edge(&mut r);
        tss_desc(rep, p, c);
        if i < 2 {
            if let Descriptor::SystemSegment(lo, hi) = unsafe { Descriptor::tss_segment_unchecked(p as *const TaskStateSegment) } {
                rep.sample(J::obj(vec![("tss", J::hex(p)), ("low", J::hex(lo)), ("high", J::hex(hi))]));
            }
        }
    }
    // the safe constructor on real TSSes
    let mut buf: Vec<u32> = vec![0; 16 * 1024];
    let mut places: Vec<(usize, usize)> = vec![(buf.as_mut_ptr() as usize, buf.len() * 4)];
    #[cfg(not(miri))]
    for hint in [0x1000_0000usize, 0x7f00_0000, 0x1_2300_0000, 0x6543_21ab_c000, 0x0100_0000_0000] {
        let m = unsafe { libc::mmap(hint as *mut libc::c_void, 8192, libc::PROT_READ | libc::PROT_WRITE, libc::MAP_PRIVATE | libc::MAP_ANONYMOUS | libc::MAP_FIXED_NOREPLACE, -1, 0) };
        if m != libc::MAP_FAILED {
            places.push((m as usize, 8192));
        }
    }
    let n = a.budget(200_000, 20_000_000);
    for _ in 0..n {
        tss_safe(rep, &mut r, &places);
    }
    rep.count("tss_safe_places", places.len() as u64);
    #[cfg(not(miri))]
    for &(b, l) in places.iter().skip(1) {
        unsafe { libc::munmap(b as *mut libc::c_void, l) };
    }
    // dpl() over random user descriptors
    let n = a.budget(200_000, 20_000_000);
    for _ in 0..n {
        rep.eval();
        let v = r.next();
        let d = if r.chance(1, 2) { Descriptor::UserSegment(v) } else { Descriptor::SystemSegment(v, r.next()) };
        if d.dpl() as u64 != (v >> 45) & 3 {
            rep.violation("Descriptor::dpl|not-bits-45-46", J::hex(v));
        }
    }
    for d in 0..4 {
        rep.class(&format!("dpl|{}", d));
    }
    // the safe constructor for addresses this process cannot own (kernel half, 57-bit canonical forms, arbitrary): the
    // reference is formed from an integer and never dereferenced here; the crate does not read the TSS either. Should
    // it ever do so, the resulting fault is a limitation of this sub-check (INCONCLUSIVE), not a finding - which is why
    // it runs last, after everything above has been judged and recorded.
    #[cfg(not(miri))]
    {
        crate::trapemu::install();
        crate::util::fault_means_nothing();
        let n = a.budget(200_000, 20_000_000);
        for i in 0..n {
            rep.eval();
            let (x, c) = match i % 4 {
                0 => (0xff00_0000_0000_0000u64 | (r.next() >> 8), "57-bit-upper"),
                1 => (0x0080_0000_0000_0000u64 | (r.next() >> 9), "57-bit-lower"),
                2 => (0xffff_8000_0000_0000u64 | (r.next() >> 17), "48-bit-upper"),
                _ => gen::u64_edge(&mut r),
            };
            let p = (x & !3).max(4);
            let st: &'static TaskStateSegment = unsafe { &*(p as *const TaskStateSegment) };
            let d = match crate::util::catch_msg(|| Descriptor::tss_segment(st)) {
                Ok(d) => d,
                Err(m) => {
                    rep.violation("tss_segment|panicked", J::obj(vec![("tss", J::hex(p)), ("page_offset", J::hex(p & 0xfff)), ("address_class", J::s(c)), ("panic", J::s(m)), ("profile", J::s(crate::util::profile_name()))]));
                    break;
                }
            };
            let u = unsafe { Descriptor::tss_segment_unchecked(p as *const TaskStateSegment) };
            let ok = match d {
                Descriptor::SystemSegment(lo, hi) => {
                    let s = decode_sys(lo, hi);
                    s == Sys { base: p, limit: 0x67, typ: 0b1001, s: false, dpl: 0, p: true, avl: false, l: false, db: false, g: false, high_reserved: 0 }
                }
                _ => false,
            };
            if !ok || format!("{:x?}", d) != format!("{:x?}", u) {
                rep.violation("tss_segment|base-is-not-the-tss-address", J::obj(vec![("tss", J::hex(p)), ("address_class", J::s(c)), ("safe", J::s(format!("{:x?}", d))), ("unchecked", J::s(format!("{:x?}", u)))]));
                break;
            }
            if i < 8 {
                rep.class(&format!("tss-safe|unowned-address|{}", c));
            }
        }
    }
}
