//! C12 — IDT entries sit where the CPU looks and encode the architectural gate format.
//! Oracle: an independent decoder of the 16-byte gate applied to the RAW BYTES of the table, an independently
//! written table of reserved / error-code / diverging vectors, and the operand of the trapped `lidt`.

use crate::gen;
use crate::trapemu::{self, K};
use crate::util::{catch, catch_msg, Args, Report, Rng, J};
use core::ops::Bound;
use x86_64::structures::gdt::SegmentSelector;
use x86_64::structures::idt::{Entry, HandlerFunc, InterruptDescriptorTable, InterruptStackFrame, PageFaultErrorCode};
use x86_64::{PrivilegeLevel, VirtAddr};

#[derive(Debug, Clone, Copy, PartialEq)]
struct Gate {
    offset: u64,
    selector: u16,
    ist: u8,
    zero1: u8,
    typ: u8,
    zero2: u8,
    dpl: u8,
    present: bool,
    reserved: u32,
}

fn decode(b: &[u8]) -> Gate {
    let lo = u16::from_le_bytes([b[0], b[1]]) as u64;
    let selector = u16::from_le_bytes([b[2], b[3]]);
    let mid = u16::from_le_bytes([b[6], b[7]]) as u64;
    let hi = u32::from_le_bytes([b[8], b[9], b[10], b[11]]) as u64;
    Gate {
        offset: lo | (mid << 16) | (hi << 32),
        selector,
        ist: b[4] & 7,
        zero1: b[4] >> 3,
        typ: b[5] & 0xf,
        zero2: (b[5] >> 4) & 1,
        dpl: (b[5] >> 5) & 3,
        present: b[5] >> 7 == 1,
        reserved: u32::from_le_bytes([b[12], b[13], b[14], b[15]]),
    }
}

fn bytes_of(idt: &InterruptDescriptorTable) -> [u8; 4096] {
    unsafe { core::ptr::read(idt as *const InterruptDescriptorTable as *const [u8; 4096]) }
}

fn entry_bytes<F>(e: &Entry<F>) -> [u8; 16] {
    unsafe { core::ptr::read(e as *const Entry<F> as *const [u8; 16]) }
}

/// manual-derived classification of the 32 exception vectors
fn index_allowed(v: u8) -> bool {
    // Index<u8> hands out Entry<HandlerFunc>: only vectors whose handler takes no error code and returns
    matches!(v, 0..=7 | 9 | 16 | 19 | 20 | 28 | 32..=255)
}

fn own_cs() -> u16 {
    let v: u16;
    unsafe { core::arch::asm!("mov {0:x}, cs", out(reg) v, options(nomem, nostack)) };
    v
}

fn layout(rep: &mut Report) {
    rep.eval();
    if core::mem::size_of::<InterruptDescriptorTable>() != 4096 || core::mem::size_of::<Entry<HandlerFunc>>() != 16 {
        rep.violation("InterruptDescriptorTable|size", J::U(core::mem::size_of::<InterruptDescriptorTable>() as u64));
        return;
    }
    let idt = Box::new(InterruptDescriptorTable::new());
    let base = &*idt as *const _ as usize;
    macro_rules! field {
        ($f:ident, $v:expr) => {{
            rep.eval();
            let off = (&idt.$f as *const _ as usize).wrapping_sub(base);
            if off != 16 * $v {
                rep.violation(concat!("field|", stringify!($f), "|not-at-16v"), J::obj(vec![("vector", J::U($v as u64)), ("offset", J::U(off as u64))]));
            }
        }};
    }
    field!(divide_error, 0);
    field!(debug, 1);
    field!(non_maskable_interrupt, 2);
    field!(breakpoint, 3);
    field!(overflow, 4);
    field!(bound_range_exceeded, 5);
    field!(invalid_opcode, 6);
    field!(device_not_available, 7);
    field!(double_fault, 8);
    field!(invalid_tss, 10);
    field!(segment_not_present, 11);
    field!(stack_segment_fault, 12);
    field!(general_protection_fault, 13);
    field!(page_fault, 14);
    field!(x87_floating_point, 16);
    field!(alignment_check, 17);
    field!(machine_check, 18);
    field!(simd_floating_point, 19);
    field!(virtualization, 20);
    field!(cp_protection_exception, 21);
    field!(hv_injection_exception, 28);
    field!(vmm_communication_exception, 29);
    field!(security_exception, 30);
    rep.class("layout|named-fields");
    // Index<u8> / IndexMut<u8>: all 256
    let mut idt = idt;
    for v in 0..=255u8 {
        rep.evals(2);
        let r = catch(|| &idt[v] as *const Entry<HandlerFunc> as usize);
        let base = &*idt as *const _ as usize;
        match r {
            Ok(p) => {
                if !index_allowed(v) {
                    rep.violation("Index<u8>|handed-out-reserved-or-differently-typed-vector", J::U(v as u64));
                } else if p != base + 16 * v as usize {
                    rep.violation("Index<u8>|entry-not-at-16v", J::obj(vec![("vector", J::U(v as u64)), ("offset", J::U((p - base) as u64))]));
                }
            }
            Err(()) => {
                if index_allowed(v) {
                    rep.violation("Index<u8>|refused-plain-vector", J::U(v as u64));
                }
            }
        }
        let r = catch(|| &mut idt[v] as *mut Entry<HandlerFunc> as usize);
        match r {
            Ok(p) => {
                if !index_allowed(v) || p != base + 16 * v as usize {
                    rep.violation("IndexMut<u8>|wrong", J::U(v as u64));
                }
            }
            Err(()) => {
                if index_allowed(v) {
                    rep.violation("IndexMut<u8>|refused-plain-vector", J::U(v as u64));
                }
            }
        }
    }
    rep.exhaustive.push("Index<u8>/IndexMut<u8>: all 256 vectors (reference at 16*v or panic per the manual-derived table)".into());
    rep.class("layout|index-u8-exhaustive");
}

/// expected (lower, upper) as the documentation of RangeBounds dictates
fn norm(sb: Bound<u8>, eb: Bound<u8>) -> (usize, usize) {
    let lo = match sb {
        Bound::Included(s) => s as usize,
        Bound::Excluded(s) => s as usize + 1,
        Bound::Unbounded => 0,
    };
    let hi = match eb {
        Bound::Included(e) => e as usize + 1,
        Bound::Excluded(e) => e as usize,
        Bound::Unbounded => 256,
    };
    (lo, hi)
}

fn judge_slice(rep: &mut Report, form: &str, base: usize, sb: Bound<u8>, eb: Bound<u8>, got: Result<(usize, usize), ()>) {
    rep.eval();
    let (lo, hi) = norm(sb, eb);
    let ctx = || J::obj(vec![("form", J::s(form)), ("start", J::s(format!("{:?}", sb))), ("end", J::s(format!("{:?}", eb))), ("got", J::s(format!("{:?}", got.map(|(p, l)| (p.wrapping_sub(base), l)))))]);
    match got {
        Ok((ptr, len)) => {
            if lo < 32 {
                rep.violation(&format!("range<{}>|accepted-range-starting-below-32", form), ctx());
            } else if lo > hi {
                rep.violation(&format!("range<{}>|accepted-reversed-range", form), ctx());
            } else if ptr != base + 16 * lo || len != hi - lo {
                rep.violation(&format!("range<{}>|slice-not-at-16v-or-wrong-length", form), ctx());
            }
        }
        Err(()) => {
            if lo >= 32 && lo <= hi {
                rep.violation(&format!("range<{}>|refused-valid-range", form), ctx());
            }
        }
    }
}

fn ranges(rep: &mut Report, r: &mut Rng, thorough: bool, shard: u64, nshards: u64) {
    let mut idt = Box::new(InterruptDescriptorTable::new());
    let base = &*idt as *const _ as usize;
    let sl = |s: &[Entry<HandlerFunc>]| (s.as_ptr() as usize, s.len());
    let mut pairs: Vec<(u8, u8)> = Vec::new();
    if thorough {
        for s in 0..=255u8 {
            if (s as u64) % nshards != shard {
                continue;
            }
            for e in 0..=255u8 {
                pairs.push((s, e));
            }
        }
    } else {
        for &s in [0u8, 1, 30, 31, 32, 33, 100, 254, 255].iter() {
            for &e in [0u8, 31, 32, 33, 99, 100, 101, 254, 255].iter() {
                pairs.push((s, e));
            }
        }
        for _ in 0..700 {
            pairs.push((r.next() as u8, r.next() as u8));
        }
    }
    for &(s, e) in pairs.iter() {
        use Bound::*;
        // every RangeBounds form the crate implements Index for, plus slice()/slice_mut()
        judge_slice(rep, "Range<u8>", base, Included(s), Excluded(e), catch(|| sl(&idt[s..e])));
        judge_slice(rep, "Range<&u8>", base, Included(s), Excluded(e), catch(|| sl(&idt[&s..&e])));
        judge_slice(rep, "RangeInclusive<u8>", base, Included(s), Included(e), catch(|| sl(&idt[s..=e])));
        judge_slice(rep, "RangeInclusive<&u8>", base, Included(s), Included(e), catch(|| sl(&idt[&s..=&e])));
        judge_slice(rep, "(Bound,Bound)excl-incl", base, Excluded(s), Included(e), catch(|| sl(&idt[(Excluded(s), Included(e))])));
        judge_slice(rep, "(Bound,Bound)excl-excl", base, Excluded(s), Excluded(e), catch(|| sl(&idt[(Excluded(s), Excluded(e))])));
        judge_slice(rep, "(Bound<&>,Bound<&>)incl-unb", base, Included(s), Unbounded, catch(|| sl(&idt[(Included(&s), Unbounded)])));
        judge_slice(rep, "slice(Range)", base, Included(s), Excluded(e), catch(|| sl(idt.slice(s..e))));
        judge_slice(rep, "slice_mut(RangeInclusive)", base, Included(s), Included(e), catch(|| {
            let m = idt.slice_mut(s..=e);
            (m.as_ptr() as usize, m.len())
        }));
        judge_slice(rep, "IndexMut<Range<u8>>", base, Included(s), Excluded(e), catch(|| {
            let m = &mut idt[s..e];
            (m.as_ptr() as usize, m.len())
        }));
    }
    for s in 0..=255u8 {
        use Bound::*;
        judge_slice(rep, "RangeFrom<u8>", base, Included(s), Unbounded, catch(|| sl(&idt[s..])));
        judge_slice(rep, "RangeFrom<&u8>", base, Included(s), Unbounded, catch(|| sl(&idt[&s..])));
        judge_slice(rep, "RangeTo<u8>", base, Unbounded, Excluded(s), catch(|| sl(&idt[..s])));
        judge_slice(rep, "RangeTo<&u8>", base, Unbounded, Excluded(s), catch(|| sl(&idt[..&s])));
        judge_slice(rep, "RangeToInclusive<u8>", base, Unbounded, Included(s), catch(|| sl(&idt[..=s])));
        judge_slice(rep, "RangeToInclusive<&u8>", base, Unbounded, Included(s), catch(|| sl(&idt[..=&s])));
    }
    judge_slice(rep, "RangeFull", base, Bound::Unbounded, Bound::Unbounded, catch(|| sl(&idt[..])));
    if thorough {
        rep.exhaustive.push("all 65536 (start,end) u8 pairs (sharded by start) through 10 two-sided range forms; all 256 bounds through 6 one-sided forms".into());
    }
    for f in ["two-sided|start<32", "two-sided|reversed", "two-sided|valid", "one-sided|from", "one-sided|to", "full"] {
        rep.class(&format!("range|{}", f));
    }
}

fn gates(rep: &mut Report, r: &mut Rng, n: u64) {
    let cs = own_cs();
    let mut idt = Box::new(InterruptDescriptorTable::new());
    // untouched entries: non-present interrupt gates with the must-be-one bits
    let check_missing = |rep: &mut Report, idt: &InterruptDescriptorTable, what: &str| {
        let b = bytes_of(idt);
        for v in 0..256 {
            let g = decode(&b[16 * v..16 * v + 16]);
            if g != (Gate { offset: 0, selector: 0, ist: 0, zero1: 0, typ: 0xE, zero2: 0, dpl: 0, present: false, reserved: 0 }) {
                rep.violation(&format!("{}|entry-is-not-a-non-present-interrupt-gate", what), J::obj(vec![("vector", J::U(v as u64)), ("gate", J::s(format!("{:x?}", g)))]));
                return;
            }
        }
    };
    rep.eval();
    check_missing(rep, &idt, "new");
    // every way of obtaining a fresh table gives untouched entries
    let d: Box<InterruptDescriptorTable> = Box::new(Default::default());
    check_missing(rep, &d, "Default::default");
    if bytes_of(&d) != bytes_of(&idt) {
        rep.violation("Default::default|differs-from-new", J::Null);
    }
    let c = idt.clone();
    check_missing(rep, &c, "new().clone()");
    rep.class("fresh-table|new,default,clone");
    let m: Entry<HandlerFunc> = Entry::missing();
    if decode(&entry_bytes(&m)).typ != 0xE || decode(&entry_bytes(&m)).present {
        rep.violation("Entry::missing|wrong", J::Null);
    }
    for i in 0..n {
        rep.eval();
        let (a, ca) = gen::canon(r);
        let v = 32 + r.below(224) as u8;
        // handler address through index, named field, or slice
        let path = r.below(3);
        let raw_before = bytes_of(&idt);
        let set = catch(|| {
            let e: &mut Entry<HandlerFunc> = match path {
                0 => &mut idt[v],
                1 => &mut idt.slice_mut(v..=v)[0],
                _ => &mut idt[v..][0],
            };
            unsafe { e.set_handler_addr(VirtAddr::new(a)) };
        });
        if set.is_err() {
            rep.violation("entry-access|valid-vector-not-reachable-through-index-or-range", J::obj(vec![("vector", J::U(v as u64)), ("path", J::U(path))]));
            continue;
        }
        let b = bytes_of(&idt);
        let g = decode(&b[16 * v as usize..16 * v as usize + 16]);
        let exp = Gate { offset: a, selector: cs, ist: 0, zero1: 0, typ: 0xE, zero2: 0, dpl: 0, present: true, reserved: 0 };
        if g != exp {
            let what = if g.offset != a { "handler-address-not-encoded-in-offset-fields" } else if g.selector != cs { "selector-is-not-current-cs" } else { "defaults-wrong" };
            rep.violation(&format!("set_handler_addr|{}", what), J::obj(vec![("vector", J::U(v as u64)), ("address", J::hex(a)), ("gate", J::s(format!("{:x?}", g))), ("expected", J::s(format!("{:x?}", exp)))]));
        }
        // only bytes 16v..16v+16 changed
        for k in 0..4096 {
            if b[k] != raw_before[k] && !(k >= 16 * v as usize && k < 16 * v as usize + 16) {
                rep.violation("set_handler_addr|bytes-of-another-vector-changed", J::obj(vec![("vector", J::U(v as u64)), ("byte", J::U(k as u64))]));
                break;
            }
        }
        if idt[v].handler_addr().as_u64() != a {
            rep.violation("handler_addr|differs-from-address-set", J::obj(vec![("address", J::hex(a))]));
        }
        // option setter program against a shadow of the five fields
        let mut sh = exp;
        let steps = r.below(8);
        let mut log: Vec<J> = Vec::new();
        for _ in 0..steps {
            // every documented argument is accepted: a panic in a setter is a finding about the setter
            let stepres = catch_msg(|| {
            let e = &mut idt[v];
            let which = r.below(5);
            // re-borrow the options through set_handler_addr's return value is not possible twice; use the documented
            // way: options are returned by set_handler_addr, so redo it and replay the shadow
            let opts = unsafe { e.set_handler_addr(VirtAddr::new(a)) };
            // replay shadow state
            opts.set_present(sh.present);
            opts.disable_interrupts(sh.typ == 0xE);
            opts.set_privilege_level(PrivilegeLevel::from_u16(sh.dpl as u16));
            if sh.ist != 0 {
                unsafe { opts.set_stack_index(sh.ist as u16 - 1) };
            }
            unsafe { opts.set_code_selector(SegmentSelector(sh.selector)) };
            match which {
                0 => {
                    let p = r.chance(1, 2);
                    opts.set_present(p);
                    sh.present = p;
                    log.push(J::s(format!("set_present({})", p)));
                }
                1 => {
                    let d = r.chance(1, 2);
                    opts.disable_interrupts(d);
                    sh.typ = if d { 0xE } else { 0xF };
                    log.push(J::s(format!("disable_interrupts({})", d)));
                }
                2 => {
                    let d = r.below(4) as u16;
                    opts.set_privilege_level(PrivilegeLevel::from_u16(d));
                    sh.dpl = d as u8;
                    log.push(J::s(format!("set_privilege_level({})", d)));
                }
                3 => {
                    let i = r.below(7) as u16;
                    unsafe { opts.set_stack_index(i) };
                    sh.ist = i as u8 + 1;
                    log.push(J::s(format!("set_stack_index({})", i)));
                }
                _ => {
                    // all selectors: also the null selector, entry 0 of the LDT (4..=7), the top of the range
                    let s = match r.below(4) { 0 => r.below(8) as u16, 1 => 0xfff8 | r.below(8) as u16, _ => r.next() as u16 };
                    unsafe { opts.set_code_selector(SegmentSelector(s)) };
                    sh.selector = s;
                    log.push(J::s(format!("set_code_selector({:#x})", s)));
                }
            }
            });
            if let Err(m) = stepres {
                rep.violation("EntryOptions|setter-panicked-on-a-documented-argument", J::obj(vec![("vector", J::U(v as u64)), ("ops", J::A(log.clone())), ("shadow_selector", J::hex(sh.selector as u64)), ("panic", J::s(m))]));
                break;
            }
            let g = decode(&entry_bytes(&idt[v]));
            if g != sh {
                let what = if g.offset != sh.offset {
                    "option-setter-changed-handler-address"
                } else if g.ist != sh.ist {
                    "ist-field-wrong"
                } else if g.typ != sh.typ {
                    "gate-type-wrong"
                } else if g.dpl != sh.dpl {
                    "dpl-wrong"
                } else if g.present != sh.present {
                    "present-bit-wrong"
                } else if g.selector != sh.selector {
                    "selector-wrong"
                } else {
                    "reserved-bits-changed"
                };
                rep.violation(&format!("EntryOptions|{}", what), J::obj(vec![("ops", J::A(log.clone())), ("gate", J::s(format!("{:x?}", g))), ("expected", J::s(format!("{:x?}", sh)))]));
                break;
            }
            if idt[v].handler_addr().as_u64() != a {
                rep.violation("EntryOptions|handler_addr-changed", J::obj(vec![("ops", J::A(log.clone()))]));
                break;
            }
        }
        rep.class(&format!("gate|{}|{}|path={}|ist={}|dpl={}|type={:x}|p={}", gen::half(a), ca, path, sh.ist, sh.dpl, sh.typ, sh.present));
        if i < 3 {
            rep.sample(J::obj(vec![("vector", J::U(v as u64)), ("handler", J::hex(a)), ("ops", J::A(log)), ("raw_gate_bytes", J::s(format!("{:02x?}", entry_bytes(&idt[v]))))]));
        }
        if i % 64 == 63 {
            idt.reset();
            check_missing(rep, &idt, "reset");
        }
    }
    // set_stack_index outside 0..7 must panic (documented) and leave the entry unchanged
    for bad in [7u16, 8, 100] {
        let before = entry_bytes(&idt[40]);
        let res = catch(|| {
            let o = unsafe { idt[40].set_handler_addr(VirtAddr::new(0x1000)) };
            unsafe { o.set_stack_index(bad) };
        });
        rep.eval();
        if res.is_ok() {
            rep.violation("set_stack_index|accepted-index-outside-0..7", J::U(bad as u64));
        }
        let _ = before;
    }
}

extern "x86-interrupt" fn h_plain(_f: InterruptStackFrame) {}
extern "x86-interrupt" fn h_err(_f: InterruptStackFrame, _e: u64) {}
extern "x86-interrupt" fn h_pf(_f: InterruptStackFrame, _e: PageFaultErrorCode) {}
extern "x86-interrupt" fn h_div(_f: InterruptStackFrame) -> ! {
    loop {}
}
extern "x86-interrupt" fn h_div_err(_f: InterruptStackFrame, _e: u64) -> ! {
    loop {}
}

fn typed_handlers(rep: &mut Report) {
    let mut idt = Box::new(InterruptDescriptorTable::new());
    idt.divide_error.set_handler_fn(h_plain);
    idt.double_fault.set_handler_fn(h_div_err);
    idt.invalid_tss.set_handler_fn(h_err);
    idt.page_fault.set_handler_fn(h_pf);
    idt.machine_check.set_handler_fn(h_div);
    idt.security_exception.set_handler_fn(h_err);
    idt[255].set_handler_fn(h_plain);
    let b = bytes_of(&idt);
    let exp: [(usize, u64); 7] = [(0, h_plain as usize as u64), (8, h_div_err as usize as u64), (10, h_err as usize as u64), (14, h_pf as usize as u64), (18, h_div as usize as u64), (30, h_err as usize as u64), (255, h_plain as usize as u64)];
    let cs = own_cs();
    for (v, a) in exp {
        rep.eval();
        let g = decode(&b[16 * v..16 * v + 16]);
        if g.offset != a || !g.present || g.selector != cs || g.typ != 0xE || g.dpl != 0 || g.ist != 0 {
            rep.violation("set_handler_fn|gate-wrong", J::obj(vec![("vector", J::U(v as u64)), ("gate", J::s(format!("{:x?}", g))), ("fn", J::hex(a))]));
        }
    }
    let present: usize = (0..256).filter(|&v| decode(&b[16 * v..16 * v + 16]).present).count();
    if present != 7 {
        rep.violation("set_handler_fn|other-entries-became-present", J::U(present as u64));
    }
    rep.class("typed-handlers");
}

/// An `Entry` is a value of alignment 4 that may live anywhere - copied out, on the stack, in an array of a per-CPU
/// structure: `set_handler_addr` encodes the gate at every placement, not only inside a 16-byte aligned table.
fn standalone_entries(rep: &mut Report, r: &mut Rng) {
    #[cfg(not(miri))]
    trapemu::install();
    let cs = own_cs();
    let mut buf: Vec<u32> = vec![0; 64];
    for k in 0..8usize {
        rep.eval();
        let p = unsafe { buf.as_mut_ptr().add(k) } as *mut Entry<HandlerFunc>; // every phase modulo 16 in steps of 4
        let (a, _) = gen::canon(r);
        unsafe { p.write(Entry::missing()) };
        crate::util::fault_means_if("C12", "set_handler_addr|standalone-entry|fault-or-abort".into(), J::obj(vec![("entry_address_mod_16", J::U((p as u64) & 15)), ("profile", J::s(crate::util::profile_name()))]), |_| true);
        let res = catch_msg(|| unsafe {
            (*p).set_handler_addr(VirtAddr::new(a));
        });
        crate::util::fault_means_nothing();
        let bytes: [u8; 16] = unsafe { core::ptr::read_unaligned(p as *const [u8; 16]) };
        let g = decode(&bytes);
        if res.is_err() || g != (Gate { offset: a, selector: cs, ist: 0, zero1: 0, typ: 0xE, zero2: 0, dpl: 0, present: true, reserved: 0 }) {
            rep.violation("set_handler_addr|standalone-entry|not-the-architectural-gate", J::obj(vec![("entry_address_mod_16", J::U((p as u64) & 15)), ("handler", J::hex(a)), ("gate", J::s(format!("{:x?}", g))), ("panic", J::s(format!("{:?}", res.err())))]));
        }
        rep.class(&format!("standalone-entry|address-mod-16={}", (p as u64) & 15));
    }
}

/// "the current code segment" is the one loaded when the handler is set: two installations around a CS reload in one
/// function carry the selector of before and of after. CS cannot really change in this process, so this runs in
/// single-step mode with an emulated CS (E4): the far return of CS::set_reg loads it, `mov r, cs` reads it.
#[inline(never)]
fn two_handlers_around_a_cs_reload(e1: &mut Entry<HandlerFunc>, e2: &mut Entry<HandlerFunc>, a: u64, b: u64, sel: u16) {
    use x86_64::instructions::segmentation::{Segment, CS};
    trapemu::step_begin();
    unsafe {
        e1.set_handler_addr(VirtAddr::new(a));
        CS::set_reg(x86_64::structures::gdt::SegmentSelector(sel));
        e2.set_handler_addr(VirtAddr::new(b));
    }
    trapemu::step_end();
}

fn cs_reload_between_installations(rep: &mut Report, r: &mut Rng) {
    let own = own_cs();
    for _ in 0..4 {
        rep.eval();
        let sel = match r.below(3) {
            0 => 0x08,
            1 => 0x10 | (r.below(4) as u16),
            _ => (r.next() as u16 & 0xfff8).max(8),
        };
        let (a, _) = gen::canon(r);
        let (b, _) = gen::canon(r);
        let mut e1: Entry<HandlerFunc> = Entry::missing();
        let mut e2: Entry<HandlerFunc> = Entry::missing();
        let regs = trapemu::regs();
        regs.sreg[1] = own;
        regs.emulate_cs_reads = true;
        crate::util::fault_means_nothing();
        let (_, evs) = trapemu::trapped(|| two_handlers_around_a_cs_reload(&mut e1, &mut e2, a, b, sel));
        let regs = trapemu::regs();
        regs.emulate_cs_reads = false;
        regs.sreg[1] = own;
        let (g1, g2) = (decode(&entry_bytes(&e1)), decode(&entry_bytes(&e2)));
        let reads = evs.iter().filter(|e| e.kind == K::MovFromCs).count();
        if g1.selector != own || g2.selector != sel || g1.offset != a || g2.offset != b || reads < 2 {
            rep.violation("set_handler_addr|around-a-CS-reload|gate-does-not-carry-the-code-segment-current-at-that-moment", J::obj(vec![("profile", J::s(crate::util::profile_name())), ("cs_before", J::hex(own as u64)), ("cs_after", J::hex(sel as u64)), ("first_gate_selector", J::hex(g1.selector as u64)), ("second_gate_selector", J::hex(g2.selector as u64)), ("cs_reads_executed", J::U(reads as u64))]));
        }
        rep.class("gate|code-segment-read-at-each-installation");
    }
}

fn load(rep: &mut Report) {
    let idt = Box::new(InterruptDescriptorTable::new());
    let base = &*idt as *const _ as u64;
    // `load` wants a `&'static`; the box outlives both calls
    let st: &'static InterruptDescriptorTable = unsafe { &*(&*idt as *const InterruptDescriptorTable) };
    for which in ["load_unsafe", "load"] {
        let (_, evs) = trapemu::trapped(|| if which == "load" { st.load() } else { unsafe { idt.load_unsafe() } });
        rep.eval();
        if evs.len() != 1 || evs[0].kind != K::Lidt {
            rep.violation(&format!("{}|not-exactly-one-lidt", which), J::A(evs.iter().map(|e| J::s(trapemu::fmt_event(e))).collect()));
        } else if evs[0].n != 4095 || evs[0].val != base {
            rep.violation(&format!("{}|wrong-limit-or-base", which), J::obj(vec![("limit", J::U(evs[0].n as u64)), ("base", J::hex(evs[0].val)), ("table", J::hex(base))]));
        }
        rep.class(which);
    }
}

pub fn run(a: &Args, rep: &mut Report) {
    #[cfg(not(miri))]
    trapemu::install();
    let mut r = Rng::derive(a.seed, "c12", a.shard);
    if !cfg!(miri) {
        standalone_entries(rep, &mut r);
        cs_reload_between_installations(rep, &mut r);
    }
    if cfg!(miri) {
        // structure code only: raw-byte layout of the table and Index<u8>
        layout(rep);
        return;
    }
    layout(rep);
    if !cfg!(miri) {
        // inline asm (reading CS, trapped lidt) cannot run in the interpreter; the structure code above and below can
        ranges(rep, &mut r, a.thorough(), a.shard, a.nshards);
        typed_handlers(rep);
        for _ in 0..20 {
            load(rep);
        }
    }
    gates(rep, &mut r, a.budget(200_000, 8_000_000));
}
