//! E4: trap-and-emulate monitor for privileged instructions.
//!
//! A SIGSEGV/SIGILL handler decodes the faulting instruction (the finite set of forms the crate can emit),
//! records an event with its operands, applies it to an emulated register file, fixes up the saved
//! registers, advances RIP and returns, so the crate's real wrapper functions run to completion in ring 3.
//! Everything the handler touches is static memory; no allocation, no locks.
#![allow(dead_code)]
#![allow(static_mut_refs)]

use core::sync::atomic::{AtomicBool, AtomicU64, AtomicUsize, Ordering};

#[derive(Clone, Copy, Debug, PartialEq, Eq)]
#[repr(u8)]
pub enum K {
    None = 0,
    MovFromCr,
    MovToCr,
    MovFromDr,
    MovToDr,
    Rdmsr,
    Wrmsr,
    Xsetbv,
    Invlpg,
    Invpcid,
    Invlpgb,
    Tlbsync,
    Cli,
    Sti,
    Hlt,
    In,
    Out,
    InsOuts,
    Lgdt,
    Lidt,
    Ltr,
    Swapgs,
    MovToSreg,
    Retfq,
    /// page fault resolved by the software MMU (E5)
    PageFault,
    /// pushfq emulated in single-step mode (value pushed in `val`)
    Pushfq,
    Xgetbv,
    MovFromCs,
    Sgdt,
    /// popfq intercepted in single-step mode (operand in `val`; not executed when `capture_popfq` is set)
    Popfq,
}

#[derive(Clone, Copy, Debug)]
pub struct Event {
    pub kind: K,
    /// register number / MSR number (ECX) / port (DX) / segment register
    pub n: u32,
    /// GPR number used as operand (mov crN, rdr) or width in bytes (in/out)
    pub gpr: u8,
    pub width: u8,
    /// main operand value (value moved / EDX:EAX / selector / RAX)
    pub val: u64,
    /// secondary value (ECX for invlpgb, register operand for invpcid)
    pub val2: u64,
    /// third value (EDX for invlpgb)
    pub val3: u64,
    /// effective address of the memory operand, if any
    pub ea: u64,
    pub rip: u64,
    /// bytes at the memory operand (invpcid: 16, lgdt/lidt: 10)
    pub mem: [u8; 16],
    /// the byte following the instruction (used for sti;hlt adjacency)
    pub next: u8,
    pub len: u8,
}

impl Event {
    const fn empty() -> Event {
        Event { kind: K::None, n: 0, gpr: 0, width: 0, val: 0, val2: 0, val3: 0, ea: 0, rip: 0, mem: [0; 16], next: 0, len: 0 }
    }
}

#[cfg(not(miri))]
pub const MAX_EVENTS: usize = 1 << 17;
#[cfg(miri)]
pub const MAX_EVENTS: usize = 16;
static mut EVENTS: [Event; MAX_EVENTS] = [Event::empty(); MAX_EVENTS];
static NEVENTS: AtomicUsize = AtomicUsize::new(0);
static OVERFLOW: AtomicBool = AtomicBool::new(false);
static ARMED: AtomicBool = AtomicBool::new(false);
static INSTALLED: AtomicBool = AtomicBool::new(false);
pub static TRAPS: AtomicU64 = AtomicU64::new(0);
/// single-step mode (RFLAGS.TF): every instruction raises SIGTRAP; `pushfq` is emulated against the emulated IF
static STEPPING: AtomicBool = AtomicBool::new(false);
pub static STEPS: AtomicU64 = AtomicU64::new(0);

pub const MSR_SLOTS: usize = 64;

/// emulated register file
pub struct Regs {
    pub cr: [u64; 16],
    pub dr: [u64; 8],
    pub xcr0: u64,
    pub msr_num: [u32; MSR_SLOTS],
    pub msr_val: [u64; MSR_SLOTS],
    pub msr_used: usize,
    pub sreg: [u16; 6],
    pub gdtr: (u16, u64),
    pub idtr: (u16, u64),
    pub tr: u16,
    pub iflag: bool,
    /// PRNG state of the I/O device model (values supplied to `in`)
    pub io_state: u64,
    pub last_in_value: u64,
    /// mirror IF into the crate's cfg-gated RFLAGS overlay
    pub mirror_if: bool,
    pub swapgs_count: u64,
    /// single-step mode: value an emulated pushfq pushes (None = the real flags with the emulated IF)
    pub rflags_override: Option<u64>,
    /// single-step mode: value every xgetbv reports (None = the instruction runs natively)
    pub xgetbv_override: Option<u64>,
    /// single-step mode: reads of CS report the emulated selector `sreg[1]`
    pub emulate_cs_reads: bool,
    /// ltr marks the descriptor busy in the table the emulated GDTR points to
    pub emulate_ltr_busy: bool,
    /// single-step mode: sgdt stores the emulated GDTR
    pub emulate_sgdt: bool,
    /// single-step mode: other RFLAGS bits (VIF, VIP, AC, ID, IOPL, NT) the emulated pushfq reports as set
    pub pushfq_or: u64,
    /// single-step mode: intercept popfq, record its operand and skip it (the operand becomes the next override)
    pub capture_popfq: bool,
}

pub static mut REGS: Regs = Regs {
    cr: [0; 16],
    dr: [0; 8],
    xcr0: 1,
    msr_num: [0; MSR_SLOTS],
    msr_val: [0; MSR_SLOTS],
    msr_used: 0,
    sreg: [0; 6],
    gdtr: (0, 0),
    idtr: (0, 0),
    tr: 0,
    iflag: true,
    io_state: 0x1234_5678_9abc_def1,
    last_in_value: 0,
    mirror_if: false,
    swapgs_count: 0,
    rflags_override: None,
    xgetbv_override: None,
    emulate_cs_reads: false,
    emulate_ltr_busy: false,
    emulate_sgdt: false,
    pushfq_or: 0,
    capture_popfq: false,
};

pub fn regs() -> &'static mut Regs {
    unsafe { &mut REGS }
}

impl Regs {
    pub fn msr_get(&self, n: u32) -> u64 {
        for i in 0..self.msr_used {
            if self.msr_num[i] == n {
                return self.msr_val[i];
            }
        }
        0
    }
    pub fn msr_set(&mut self, n: u32, v: u64) {
        for i in 0..self.msr_used {
            if self.msr_num[i] == n {
                self.msr_val[i] = v;
                return;
            }
        }
        if self.msr_used < MSR_SLOTS {
            self.msr_num[self.msr_used] = n;
            self.msr_val[self.msr_used] = v;
            self.msr_used += 1;
        } else {
            // recycle slot 0 (only random MSR numbers ever reach this many)
            self.msr_num[0] = n;
            self.msr_val[0] = v;
        }
    }
    pub fn msr_clear(&mut self) {
        self.msr_used = 0;
    }
    pub fn set_if(&mut self, v: bool) {
        self.iflag = v;
        if self.mirror_if {
            x86_64::verif_hooks::RFLAGS_IF_OVERLAY.store(if v { 2 } else { 1 }, Ordering::Relaxed);
        }
    }
}

/// why an unhandled fault happened (filled by the handler before calling the emergency hook)
#[derive(Clone, Copy, Debug)]
pub struct Unhandled {
    pub sig: i32,
    pub addr: u64,
    pub rip: u64,
    pub bytes: [u8; 12],
    pub armed: bool,
}

/// called for faults the monitor cannot handle; must not return
pub static mut EMERGENCY: Option<fn(&Unhandled) -> !> = None;
/// optional resolver for page faults inside a software-MMU window: returns true if resolved
pub static mut PF_RESOLVER: Option<fn(addr: u64, write: bool, rip: u64) -> bool> = None;
/// optional redirection of one page this process cannot map (a kernel-half address): (page, shadow page, hits). An access
/// to the page faults; every general register that points into the page is re-pointed into the shadow and the instruction
/// restarted, so the code under test reads / writes the shadow instead.
pub static mut REDIRECT: Option<(u64, u64)> = None;
pub static REDIRECT_HITS: AtomicU64 = AtomicU64::new(0);

const GREG: [usize; 16] = [
    libc::REG_RAX as usize,
    libc::REG_RCX as usize,
    libc::REG_RDX as usize,
    libc::REG_RBX as usize,
    libc::REG_RSP as usize,
    libc::REG_RBP as usize,
    libc::REG_RSI as usize,
    libc::REG_RDI as usize,
    libc::REG_R8 as usize,
    libc::REG_R9 as usize,
    libc::REG_R10 as usize,
    libc::REG_R11 as usize,
    libc::REG_R12 as usize,
    libc::REG_R13 as usize,
    libc::REG_R14 as usize,
    libc::REG_R15 as usize,
];

struct Ctx {
    g: *mut i64,
}
impl Ctx {
    #[inline]
    fn get(&self, r: usize) -> u64 {
        unsafe { *self.g.add(GREG[r]) as u64 }
    }
    #[inline]
    fn set(&self, r: usize, v: u64) {
        unsafe { *self.g.add(GREG[r]) = v as i64 }
    }
    #[inline]
    fn rip(&self) -> u64 {
        unsafe { *self.g.add(libc::REG_RIP as usize) as u64 }
    }
    #[inline]
    fn set_rip(&self, v: u64) {
        unsafe { *self.g.add(libc::REG_RIP as usize) = v as i64 }
    }
}

/// decoded ModRM: (reg field incl. REX.R, is_register_operand, rm register incl. REX.B, effective address, total length of modrm+sib+disp)
fn modrm(code: *const u8, rex: u8, ctx: &Ctx, next_rip_base: u64) -> (usize, bool, usize, u64, usize) {
    unsafe {
        let m = *code;
        let md = m >> 6;
        let reg = (((m >> 3) & 7) | ((rex & 4) << 1)) as usize;
        let rm = (m & 7) as usize;
        if md == 3 {
            return (reg, true, rm | (((rex & 1) as usize) << 3), 0, 1);
        }
        let mut len = 1usize;
        let mut ea: u64;
        let mut rip_rel = false;
        if rm == 4 {
            let sib = *code.add(1);
            len += 1;
            let scale = sib >> 6;
            let idx = (((sib >> 3) & 7) | ((rex & 2) << 2)) as usize;
            let base = ((sib & 7) | ((rex & 1) << 3)) as usize;
            ea = 0;
            if idx != 4 {
                ea = ctx.get(idx) << scale;
            }
            if (sib & 7) == 5 && md == 0 {
                let d = core::ptr::read_unaligned(code.add(len) as *const i32);
                len += 4;
                ea = ea.wrapping_add(d as i64 as u64);
            } else {
                ea = ea.wrapping_add(ctx.get(base));
            }
        } else if rm == 5 && md == 0 {
            let d = core::ptr::read_unaligned(code.add(len) as *const i32);
            len += 4;
            ea = d as i64 as u64;
            rip_rel = true;
        } else {
            ea = ctx.get(rm | (((rex & 1) as usize) << 3));
        }
        if md == 1 {
            let d = *code.add(len) as i8;
            len += 1;
            ea = ea.wrapping_add(d as i64 as u64);
        } else if md == 2 {
            let d = core::ptr::read_unaligned(code.add(len) as *const i32);
            len += 4;
            ea = ea.wrapping_add(d as i64 as u64);
        }
        if rip_rel {
            // relative to the end of the instruction: caller passes the address of the modrm byte
            ea = ea.wrapping_add(next_rip_base.wrapping_add(len as u64));
        }
        (reg, false, rm, ea, len)
    }
}

fn push_event(e: Event) {
    let i = NEVENTS.load(Ordering::Relaxed);
    if i < MAX_EVENTS {
        unsafe {
            EVENTS[i] = e;
        }
        NEVENTS.store(i + 1, Ordering::Relaxed);
    } else {
        OVERFLOW.store(true, Ordering::Relaxed);
    }
}

/// the value the emulated device supplies to the next port read: mostly random, now and then an edge value (all ones - a
/// floating bus / PCI master abort -, zero, only the top bit of each width)
fn io_next(r: &mut Regs) -> u64 {
    let mut x = r.io_state;
    let v = crate::util::splitmix(&mut x);
    let sel = crate::util::splitmix(&mut x);
    r.io_state = x;
    match sel % 16 {
        0 => u64::MAX,
        1 => 0,
        2 => 0x8000_0000_8000_8080,
        3 => 0xffff_ffff_0000_ffff ^ (v & 0xffff_0000),
        _ => v,
    }
}

/// Try to decode and emulate the instruction at RIP. Returns true if handled.
unsafe fn emulate(ctx: &Ctx) -> bool {
    let rip = ctx.rip();
    let code = rip as *const u8;
    let mut p = 0usize;
    let mut opsize16 = false;
    let mut rep = false;
    // legacy prefixes
    loop {
        let b = *code.add(p);
        match b {
            0x66 => {
                opsize16 = true;
                p += 1;
            }
            0xf3 | 0xf2 => {
                rep = true;
                p += 1;
            }
            0x2e | 0x36 | 0x3e | 0x26 | 0x64 | 0x65 | 0x67 => p += 1,
            _ => break,
        }
        if p > 4 {
            return false;
        }
    }
    let mut rex = 0u8;
    let b = *code.add(p);
    if b & 0xf0 == 0x40 {
        rex = b;
        p += 1;
    }
    let op = *code.add(p);
    p += 1;
    let r = regs();
    let mut ev = Event::empty();
    ev.rip = rip;
    let _ = rep;
    let len: usize;
    match op {
        0xfa => {
            ev.kind = K::Cli;
            r.set_if(false);
            len = p;
        }
        0xfb => {
            ev.kind = K::Sti;
            r.set_if(true);
            len = p;
        }
        0xf4 => {
            ev.kind = K::Hlt;
            len = p;
        }
        0xec | 0xed => {
            // in al/ax/eax, dx
            ev.kind = K::In;
            let w: u8 = if op == 0xec { 1 } else if opsize16 { 2 } else { 4 };
            ev.width = w;
            ev.n = (ctx.get(2) & 0xffff) as u32;
            let v = io_next(r);
            let rax = ctx.get(0);
            let (newrax, supplied) = match w {
                1 => ((rax & !0xff) | (v & 0xff), v & 0xff),
                2 => ((rax & !0xffff) | (v & 0xffff), v & 0xffff),
                _ => (v & 0xffff_ffff, v & 0xffff_ffff),
            };
            ctx.set(0, newrax);
            ev.val = supplied;
            r.last_in_value = supplied;
            len = p;
        }
        0xee | 0xef => {
            ev.kind = K::Out;
            let w: u8 = if op == 0xee { 1 } else if opsize16 { 2 } else { 4 };
            ev.width = w;
            ev.n = (ctx.get(2) & 0xffff) as u32;
            let rax = ctx.get(0);
            ev.val = match w {
                1 => rax & 0xff,
                2 => rax & 0xffff,
                _ => rax & 0xffff_ffff,
            };
            len = p;
        }
        0xe4 | 0xe5 => {
            // in al/ax/eax, imm8
            ev.kind = K::In;
            let w: u8 = if op == 0xe4 { 1 } else if opsize16 { 2 } else { 4 };
            ev.width = w;
            ev.n = *code.add(p) as u32;
            let v = io_next(r);
            let rax = ctx.get(0);
            let (newrax, supplied) = match w {
                1 => ((rax & !0xff) | (v & 0xff), v & 0xff),
                2 => ((rax & !0xffff) | (v & 0xffff), v & 0xffff),
                _ => (v & 0xffff_ffff, v & 0xffff_ffff),
            };
            ctx.set(0, newrax);
            ev.val = supplied;
            r.last_in_value = supplied;
            len = p + 1;
        }
        0xe6 | 0xe7 => {
            // out imm8, al/ax/eax
            ev.kind = K::Out;
            let w: u8 = if op == 0xe6 { 1 } else if opsize16 { 2 } else { 4 };
            ev.width = w;
            ev.n = *code.add(p) as u32;
            let rax = ctx.get(0);
            ev.val = match w {
                1 => rax & 0xff,
                2 => rax & 0xffff,
                _ => rax & 0xffff_ffff,
            };
            len = p + 1;
        }
        0x6c..=0x6f => {
            // string I/O moves data through memory: recorded, not emulated
            ev.kind = K::InsOuts;
            ev.n = (ctx.get(2) & 0xffff) as u32;
            len = p;
        }
        0x8e => {
            // mov sreg, r/m16
            let (reg, isreg, rm, ea, l) = modrm(code.add(p), rex, ctx, rip + p as u64);
            ev.kind = K::MovToSreg;
            ev.n = (reg & 7) as u32;
            let sel = if isreg { ctx.get(rm) & 0xffff } else { core::ptr::read_unaligned(ea as *const u16) as u64 };
            ev.val = sel;
            ev.ea = ea;
            if (reg & 7) < 6 {
                r.sreg[reg & 7] = sel as u16;
            }
            len = p + l;
        }
        0xcb => {
            // retfq (REX.W CB): far return used by CS::set_reg
            ev.kind = K::Retfq;
            let rsp = ctx.get(4);
            let new_rip = core::ptr::read_unaligned(rsp as *const u64);
            let cs = core::ptr::read_unaligned((rsp + 8) as *const u64);
            ev.val = cs;
            ev.val2 = new_rip;
            ev.width = if rex & 8 != 0 { 8 } else { 4 };
            r.sreg[1] = cs as u16;
            ctx.set(4, rsp + 16);
            ev.len = p as u8;
            ev.next = *code.add(p);
            push_event(ev);
            ctx.set_rip(new_rip);
            return true;
        }
        0x0f => {
            let op2 = *code.add(p);
            p += 1;
            match op2 {
                0x20 | 0x21 | 0x22 | 0x23 => {
                    let m = *code.add(p);
                    let reg = (((m >> 3) & 7) | ((rex & 4) << 1)) as usize;
                    let rm = ((m & 7) | ((rex & 1) << 3)) as usize;
                    ev.n = reg as u32;
                    ev.gpr = rm as u8;
                    match op2 {
                        0x20 => {
                            ev.kind = K::MovFromCr;
                            ev.val = r.cr[reg & 15];
                            ctx.set(rm, ev.val);
                        }
                        0x21 => {
                            ev.kind = K::MovFromDr;
                            ev.val = r.dr[reg & 7];
                            ctx.set(rm, ev.val);
                        }
                        0x22 => {
                            ev.kind = K::MovToCr;
                            ev.val = ctx.get(rm);
                            // CR3 bit 63 (do not flush) is a command bit, not stored
                            r.cr[reg & 15] = if reg == 3 { ev.val & !(1 << 63) } else { ev.val };
                        }
                        _ => {
                            ev.kind = K::MovToDr;
                            ev.val = ctx.get(rm);
                            r.dr[reg & 7] = ev.val;
                        }
                    }
                    len = p + 1;
                }
                0x32 => {
                    ev.kind = K::Rdmsr;
                    ev.n = ctx.get(1) as u32;
                    let v = r.msr_get(ev.n);
                    ev.val = v;
                    ctx.set(0, v & 0xffff_ffff);
                    ctx.set(2, v >> 32);
                    len = p;
                }
                0x30 => {
                    ev.kind = K::Wrmsr;
                    ev.n = ctx.get(1) as u32;
                    ev.val2 = ctx.get(0);
                    ev.val3 = ctx.get(2);
                    let v = (ctx.get(0) & 0xffff_ffff) | ((ctx.get(2) & 0xffff_ffff) << 32);
                    ev.val = v;
                    r.msr_set(ev.n, v);
                    len = p;
                }
                0x00 => {
                    let (reg, isreg, rm, ea, l) = modrm(code.add(p), rex, ctx, rip + p as u64);
                    if reg & 7 == 3 {
                        ev.kind = K::Ltr;
                        let sel = if isreg { ctx.get(rm) & 0xffff } else { core::ptr::read_unaligned(ea as *const u16) as u64 };
                        ev.val = sel;
                        r.tr = sel as u16;
                        // ltr also WRITES memory: it marks the TSS descriptor busy in the GDT. Emulated against the emulated
                        // GDTR when a test asks for it (the GDT then is ordinary memory of this process)
                        if r.emulate_ltr_busy {
                            let (limit, base) = r.gdtr;
                            let idx = (sel >> 3) as u64;
                            if base != 0 && 8 * idx + 7 <= limit as u64 {
                                let d = (base + 8 * idx) as *mut u64;
                                core::ptr::write_volatile(d, core::ptr::read_volatile(d) | (1 << 41));
                            }
                        }
                        len = p + l;
                    } else {
                        return false;
                    }
                }
                0x01 => {
                    let m = *code.add(p);
                    match m {
                        0xd1 => {
                            ev.kind = K::Xsetbv;
                            ev.n = ctx.get(1) as u32;
                            ev.val2 = ctx.get(0);
                            ev.val3 = ctx.get(2);
                            let v = (ctx.get(0) & 0xffff_ffff) | ((ctx.get(2) & 0xffff_ffff) << 32);
                            ev.val = v;
                            if ev.n == 0 {
                                r.xcr0 = v;
                            }
                            len = p + 1;
                        }
                        0xfe => {
                            ev.kind = K::Invlpgb;
                            ev.val = ctx.get(0);
                            ev.val2 = ctx.get(1) & 0xffff_ffff;
                            ev.val3 = ctx.get(2) & 0xffff_ffff;
                            len = p + 1;
                        }
                        0xff => {
                            ev.kind = K::Tlbsync;
                            len = p + 1;
                        }
                        0xf8 => {
                            ev.kind = K::Swapgs;
                            r.swapgs_count += 1;
                            len = p + 1;
                        }
                        _ => {
                            let (reg, isreg, _rm, ea, l) = modrm(code.add(p), rex, ctx, rip + p as u64);
                            if isreg {
                                return false;
                            }
                            match reg & 7 {
                                2 | 3 => {
                                    ev.kind = if reg & 7 == 2 { K::Lgdt } else { K::Lidt };
                                    ev.ea = ea;
                                    for i in 0..10 {
                                        ev.mem[i] = *(ea as *const u8).add(i);
                                    }
                                    let limit = u16::from_le_bytes([ev.mem[0], ev.mem[1]]);
                                    let mut b8 = [0u8; 8];
                                    b8.copy_from_slice(&ev.mem[2..10]);
                                    let base = u64::from_le_bytes(b8);
                                    ev.val = base;
                                    ev.n = limit as u32;
                                    if reg & 7 == 2 {
                                        r.gdtr = (limit, base);
                                    } else {
                                        r.idtr = (limit, base);
                                    }
                                }
                                7 => {
                                    ev.kind = K::Invlpg;
                                    ev.ea = ea;
                                    ev.val = ea;
                                }
                                _ => return false,
                            }
                            len = p + l;
                        }
                    }
                }
                0x38 => {
                    // 66 0F 38 82 /r  invpcid r64, m128
                    let op3 = *code.add(p);
                    p += 1;
                    if op3 != 0x82 || !opsize16 {
                        return false;
                    }
                    let (reg, isreg, _rm, ea, l) = modrm(code.add(p), rex, ctx, rip + p as u64);
                    if isreg {
                        return false;
                    }
                    ev.kind = K::Invpcid;
                    ev.val2 = ctx.get(reg);
                    ev.gpr = reg as u8;
                    ev.ea = ea;
                    for i in 0..16 {
                        ev.mem[i] = *(ea as *const u8).add(i);
                    }
                    len = p + l;
                }
                _ => return false,
            }
        }
        _ => return false,
    }
    ev.len = len as u8;
    ev.next = *code.add(len);
    push_event(ev);
    ctx.set_rip(rip + len as u64);
    true
}

extern "C" fn handler(sig: i32, info: *mut libc::siginfo_t, uc: *mut libc::c_void) {
    unsafe {
        let uc = uc as *mut libc::ucontext_t;
        let ctx = Ctx { g: (*uc).uc_mcontext.gregs.as_mut_ptr() };
        if sig == libc::SIGTRAP {
            let efl = ctx.g.add(libc::REG_EFL as usize);
            if !STEPPING.load(Ordering::Relaxed) {
                *efl &= !0x100; // stop single-stepping
                return;
            }
            STEPS.fetch_add(1, Ordering::Relaxed);
            // emulate every pushfq that is about to execute (it cannot be trapped otherwise)
            loop {
                let rip = ctx.rip();
                let opc = *(rip as *const u8);
                if opc == 0x9d && regs().capture_popfq {
                    // popfq: record the operand, do not load it into the real RFLAGS
                    let r = regs();
                    let rsp = ctx.get(4);
                    let v = core::ptr::read_unaligned(rsp as *const u64);
                    ctx.set(4, rsp + 8);
                    ctx.set_rip(rip + 1);
                    r.rflags_override = Some(v);
                    let mut ev = Event::empty();
                    ev.kind = K::Popfq;
                    ev.val = v;
                    ev.rip = rip;
                    ev.len = 1;
                    push_event(ev);
                    continue;
                }
                // `mov r, cs` is unprivileged and CS cannot really be changed by this process: with an emulated CS (set by the
                // emulated far return of CS::set_reg) reads of CS are emulated here as well
                if regs().emulate_cs_reads {
                    let mut q = 0usize;
                    let mut b = *(rip as *const u8);
                    if b == 0x66 {
                        q += 1;
                        b = *(rip as *const u8).add(q);
                    }
                    let mut rexb = 0usize;
                    if b & 0xf0 == 0x40 {
                        rexb = (b & 1) as usize;
                        q += 1;
                        b = *(rip as *const u8).add(q);
                    }
                    let m = *(rip as *const u8).add(q + 1);
                    if b == 0x8c && m >> 6 == 3 && (m >> 3) & 7 == 1 {
                        let dst = (m & 7) as usize | (rexb << 3);
                        let v = regs().sreg[1] as u64;
                        ctx.set(dst, v);
                        ctx.set_rip(rip + q as u64 + 2);
                        let mut ev = Event::empty();
                        ev.kind = K::MovFromCs;
                        ev.val = v;
                        ev.rip = rip;
                        ev.len = (q + 2) as u8;
                        push_event(ev);
                        continue;
                    }
                }
                // sgdt m (0F 01 /0) is unprivileged (without UMIP) and would report the host's GDTR: with an emulated GDTR it
                // is emulated here
                if regs().emulate_sgdt {
                    let mut q = 0usize;
                    let mut b = *(rip as *const u8);
                    let mut rex = 0u8;
                    if b & 0xf0 == 0x40 {
                        rex = b;
                        q += 1;
                        b = *(rip as *const u8).add(q);
                    }
                    if b == 0x0f && *(rip as *const u8).add(q + 1) == 0x01 {
                        let m = *(rip as *const u8).add(q + 2);
                        if m >> 6 != 3 && (m >> 3) & 7 == 0 {
                            let (_reg, _isreg, _rm, ea, l) = modrm((rip as *const u8).add(q + 2), rex, &ctx, rip + q as u64 + 2);
                            let (limit, base) = regs().gdtr;
                            core::ptr::write_unaligned(ea as *mut u16, limit);
                            core::ptr::write_unaligned((ea + 2) as *mut u64, base);
                            ctx.set_rip(rip + (q + 2 + l) as u64);
                            let mut ev = Event::empty();
                            ev.kind = K::Sgdt;
                            ev.n = limit as u32;
                            ev.val = base;
                            ev.rip = rip;
                            ev.len = (q + 2 + l) as u8;
                            push_event(ev);
                            continue;
                        }
                    }
                }
                // xgetbv (0F 01 D0) is unprivileged too: with an emulated XCR0 chosen by the test it is emulated here
                if opc == 0x0f && *(rip as *const u8).add(1) == 0x01 && *(rip as *const u8).add(2) == 0xd0 {
                    if let Some(v) = regs().xgetbv_override {
                        let ecx = ctx.get(1) & 0xffff_ffff;
                        ctx.set(0, v & 0xffff_ffff);
                        ctx.set(2, v >> 32);
                        ctx.set_rip(rip + 3);
                        let mut ev = Event::empty();
                        ev.kind = K::Xgetbv;
                        ev.n = ecx as u32;
                        ev.val = v;
                        ev.rip = rip;
                        ev.len = 3;
                        push_event(ev);
                        continue;
                    }
                }
                if opc != 0x9c {
                    break;
                }
                let r = regs();
                let mut fl = (*efl as u64) & !0x100;
                fl = (fl & !0x200) | ((r.iflag as u64) << 9);
                fl |= r.pushfq_or & !0x200;
                if let Some(v) = r.rflags_override {
                    fl = v;
                }
                let rsp = ctx.get(4) - 8;
                core::ptr::write_unaligned(rsp as *mut u64, fl);
                ctx.set(4, rsp);
                ctx.set_rip(rip + 1);
                let mut ev = Event::empty();
                ev.kind = K::Pushfq;
                ev.val = fl;
                ev.rip = rip;
                ev.len = 1;
                push_event(ev);
            }
            return;
        }
        TRAPS.fetch_add(1, Ordering::Relaxed);
        let addr = (*info).si_addr() as u64;
        let armed = ARMED.load(Ordering::Relaxed);
        // page faults inside a software-MMU window come first (si_code SEGV_MAPERR / SEGV_ACCERR with an address)
        if sig == libc::SIGSEGV {
            if let Some((from, to)) = REDIRECT {
                // (a kernel-half address gives no si_addr: the registers decide)
                let mut hit = false;
                for g in 0..16 {
                    if g == 4 {
                        continue;
                    }
                    let v = ctx.get(g);
                    if v & !0xfff == from {
                        ctx.set(g, to + (v & 0xfff));
                        hit = true;
                    }
                }
                if hit {
                    REDIRECT_HITS.fetch_add(1, Ordering::Relaxed);
                    return;
                }
            }
            if let Some(res) = PF_RESOLVER {
                let code = (*info).si_code;
                if code == 1 || code == 2 {
                    let err = *(*uc).uc_mcontext.gregs.as_ptr().add(libc::REG_ERR as usize) as u64;
                    if res(addr, err & 2 != 0, ctx.rip()) {
                        return;
                    }
                }
            }
        }
        if armed && emulate(&ctx) {
            return;
        }
        let rip = ctx.rip();
        let mut bytes = [0u8; 12];
        // RIP may itself be bogus; only read the bytes when the fault is not an instruction fetch fault
        if addr != rip {
            for i in 0..12 {
                bytes[i] = *(rip as *const u8).add(i);
            }
        }
        let u = Unhandled { sig, addr, rip, bytes, armed };
        if let Some(f) = EMERGENCY {
            f(&u);
        }
        crate::util::emergency_exit(sig, addr, rip, &u.bytes);
    }
}

pub fn install() {
    if INSTALLED.swap(true, Ordering::SeqCst) {
        return;
    }
    unsafe {
        // alternate stack
        let sz = 1 << 18;
        let stk = libc::mmap(core::ptr::null_mut(), sz, libc::PROT_READ | libc::PROT_WRITE, libc::MAP_PRIVATE | libc::MAP_ANONYMOUS, -1, 0);
        let ss = libc::stack_t { ss_sp: stk, ss_flags: 0, ss_size: sz };
        libc::sigaltstack(&ss, core::ptr::null_mut());
        let mut sa: libc::sigaction = core::mem::zeroed();
        sa.sa_sigaction = handler as usize;
        sa.sa_flags = libc::SA_SIGINFO | libc::SA_ONSTACK | libc::SA_NODEFER;
        libc::sigemptyset(&mut sa.sa_mask);
        libc::sigaction(libc::SIGSEGV, &sa, core::ptr::null_mut());
        libc::sigaction(libc::SIGILL, &sa, core::ptr::null_mut());
        libc::sigaction(libc::SIGBUS, &sa, core::ptr::null_mut());
        libc::sigaction(libc::SIGTRAP, &sa, core::ptr::null_mut());
        // an abort (a panic that cannot unwind, e.g. inside an `extern "x86-interrupt"` stub) ends the process through the
        // same emergency exit, so that the report gathered so far is written and the abort can be attributed
        libc::sigaction(libc::SIGABRT, &sa, core::ptr::null_mut());
    }
}

/// start single-stepping: every following instruction traps (slow: ~1-2 us per instruction)
#[inline(never)]
pub fn step_begin() {
    STEPS.store(0, Ordering::SeqCst);
    STEPPING.store(true, Ordering::SeqCst);
    unsafe { core::arch::asm!("pushfq", "or qword ptr [rsp], 0x100", "popfq") };
}

/// stop single-stepping (the next trap clears TF); returns the number of instructions stepped
#[inline(never)]
pub fn step_end() -> u64 {
    STEPPING.store(false, Ordering::SeqCst);
    unsafe { core::arch::asm!("nop", "nop") };
    STEPS.load(Ordering::SeqCst)
}

pub fn arm(on: bool) {
    ARMED.store(on, Ordering::SeqCst);
}

pub fn clear_events() {
    NEVENTS.store(0, Ordering::SeqCst);
    OVERFLOW.store(false, Ordering::SeqCst);
}

pub fn nevents() -> usize {
    NEVENTS.load(Ordering::SeqCst)
}

pub fn overflowed() -> bool {
    OVERFLOW.load(Ordering::SeqCst)
}

pub fn event(i: usize) -> Event {
    unsafe { EVENTS[i] }
}

pub fn events() -> Vec<Event> {
    let n = nevents();
    (0..n).map(event).collect()
}

/// run `f` with the trap monitor armed, return its result and the events it caused
pub fn trapped<T>(f: impl FnOnce() -> T) -> (T, Vec<Event>) {
    clear_events();
    arm(true);
    let r = f();
    arm(false);
    (r, events())
}

/// like `trapped`, but panics inside `f` are caught (Err) and the monitor is disarmed either way
pub fn trapped_catch<T>(f: impl FnOnce() -> T) -> (Result<T, String>, Vec<Event>) {
    clear_events();
    arm(true);
    let r = crate::util::catch_msg(f);
    arm(false);
    (r, events())
}

pub fn fmt_event(e: &Event) -> String {
    match e.kind {
        K::MovFromCr => format!("mov r{},cr{} -> {:#x}", e.gpr, e.n, e.val),
        K::MovToCr => format!("mov cr{},r{} = {:#x}", e.n, e.gpr, e.val),
        K::MovFromDr => format!("mov r{},dr{} -> {:#x}", e.gpr, e.n, e.val),
        K::MovToDr => format!("mov dr{},r{} = {:#x}", e.n, e.gpr, e.val),
        K::Rdmsr => format!("rdmsr ecx={:#x} -> {:#x}", e.n, e.val),
        K::Wrmsr => format!("wrmsr ecx={:#x} edx:eax={:#x}", e.n, e.val),
        K::Xsetbv => format!("xsetbv ecx={:#x} edx:eax={:#x}", e.n, e.val),
        K::Invlpg => format!("invlpg [{:#x}]", e.ea),
        K::Invpcid => format!("invpcid type={:#x} desc={:02x?}", e.val2, e.mem),
        K::Invlpgb => format!("invlpgb rax={:#x} ecx={:#x} edx={:#x}", e.val, e.val2, e.val3),
        K::Xgetbv => format!("xgetbv ecx={:#x} -> {:#x}", e.n, e.val),
        K::MovFromCs => format!("mov r, cs -> {:#x}", e.val),
        K::Sgdt => format!("sgdt -> limit={:#x} base={:#x}", e.n, e.val),
        K::In => format!("in{} dx={:#x} -> {:#x}", e.width * 8, e.n, e.val),
        K::Out => format!("out{} dx={:#x} val={:#x}", e.width * 8, e.n, e.val),
        K::Lgdt | K::Lidt => format!("{:?} limit={:#x} base={:#x}", e.kind, e.n, e.val),
        K::Ltr => format!("ltr {:#x}", e.val),
        K::MovToSreg => format!("mov sreg{},{:#x}", e.n, e.val),
        K::Retfq => format!("retfq cs={:#x} rip={:#x}", e.val, e.val2),
        k => format!("{:?}", k),
    }
}
