//! E3 (other half): deterministic sequential model of a 4-level page-table hierarchy implementing the
//! *documented* semantics of the Mapper operations, and the structural comparison with a raw-memory dump.
#![allow(dead_code)]

use crate::hwwalk::{RNode, ADDR, FLAGS, P, PS, W};
use std::collections::BTreeMap;

#[derive(Clone, Debug, PartialEq)]
pub enum Touch {
    None,
    Created { req: u64 },
    Path { old: u64, req: u64 },
    Exact,
}

#[derive(Clone, Debug)]
pub enum Node {
    /// flags: bits 0-11 and 52-63 exactly as stored (PS included for huge leaves)
    Leaf { frame: u64, flags: u64 },
    Table(Box<TableNode>),
}

#[derive(Clone, Debug)]
pub struct TableNode {
    pub frame: Option<u64>,
    pub flags: u64,
    pub touch: Touch,
    pub kids: BTreeMap<u16, Node>,
}

#[derive(Clone, Debug, PartialEq)]
pub enum Exp {
    MapOk,
    MapErr(&'static str),
    UnmapOk { frame: u64 },
    UnmapErr(&'static str),
    FlagsOk,
    FlagsErr(&'static str),
    SetOk,
    SetErr(&'static str),
    TpOk { frame: u64 },
    TpErr(&'static str),
    /// state not defined by the documentation: any Err, nothing may change
    AnyErr,
    Panic,
    Clean,
}

#[derive(Clone, Copy, Debug, PartialEq)]
pub struct Fail {
    /// the n-th (1-based) allocation request of the call fails
    pub at: Option<usize>,
}

impl Fail {
    pub fn none() -> Fail {
        Fail { at: None }
    }
    fn hits(&self, req: usize) -> bool {
        self.at == Some(req)
    }
}

#[derive(Clone, Debug)]
pub struct Model {
    pub kids: BTreeMap<u16, Node>,
    /// RecursivePageTable: always adds PRESENT|WRITABLE to parent entries it creates
    pub forces_pw: bool,
}

pub fn indices(va: u64) -> [u16; 4] {
    [
        ((va >> 39) & 0x1ff) as u16,
        ((va >> 30) & 0x1ff) as u16,
        ((va >> 21) & 0x1ff) as u16,
        ((va >> 12) & 0x1ff) as u16,
    ]
}

fn subtree_live(kids: &BTreeMap<u16, Node>) -> bool {
    kids.values().any(|n| match n {
        Node::Leaf { .. } => true,
        Node::Table(t) => subtree_live(&t.kids),
    })
}

pub struct Applied {
    pub exp: Exp,
    /// state class the operation was called in
    pub class: String,
    /// allocation requests the call is expected to make (including a failing one)
    pub requests: usize,
}

enum Desc<'a> {
    Slot(&'a mut BTreeMap<u16, Node>),
    Missing(u8),
    Huge(u8),
}

impl Model {
    pub fn new(forces_pw: bool) -> Model {
        Model { kids: BTreeMap::new(), forces_pw }
    }

    pub fn clear_touch(&mut self) {
        fn rec(k: &mut BTreeMap<u16, Node>) {
            for n in k.values_mut() {
                if let Node::Table(t) = n {
                    t.touch = Touch::None;
                    rec(&mut t.kids);
                }
            }
        }
        rec(&mut self.kids);
    }

    /// descend through existing tables from level 4 down to the table that holds the slot of `lvl`
    fn descend(&mut self, idx: [u16; 4], lvl: u8) -> Desc<'_> {
        let mut cur: &mut BTreeMap<u16, Node> = &mut self.kids;
        let mut level = 4u8;
        while level > lvl {
            let i = idx[(4 - level) as usize];
            match cur.get_mut(&i) {
                None => return Desc::Missing(level),
                Some(Node::Leaf { .. }) => return Desc::Huge(level),
                Some(Node::Table(t)) => {
                    cur = &mut t.kids;
                }
            }
            level -= 1;
        }
        Desc::Slot(cur)
    }

    pub fn map(&mut self, va: u64, lvl: u8, frame: u64, flags: u64, pflags: u64, fail: Fail) -> Applied {
        let idx = indices(va);
        let forces = if self.forces_pw { P | W } else { 0 };
        let mut cur: &mut BTreeMap<u16, Node> = &mut self.kids;
        let mut level = 4u8;
        let mut req = 0usize;
        while level > lvl {
            let i = idx[(4 - level) as usize];
            if !cur.contains_key(&i) {
                req += 1;
                if fail.hits(req) {
                    return Applied { exp: Exp::MapErr("FrameAllocationFailed"), class: format!("alloc-fail@{}of-level{}", req, level - 1), requests: req };
                }
                cur.insert(i, Node::Table(Box::new(TableNode { frame: None, flags: pflags | forces, touch: Touch::Created { req: pflags }, kids: BTreeMap::new() })));
            } else {
                match cur.get_mut(&i).unwrap() {
                    Node::Leaf { .. } => {
                        return Applied { exp: Exp::MapErr("ParentEntryHugePage"), class: format!("InsideLarger(level{})", level), requests: req };
                    }
                    Node::Table(t) => {
                        if t.touch == Touch::None {
                            t.touch = Touch::Path { old: t.flags, req: pflags };
                        }
                        t.flags |= pflags;
                    }
                }
            }
            cur = match cur.get_mut(&i).unwrap() {
                Node::Table(t) => &mut t.kids,
                _ => unreachable!(),
            };
            level -= 1;
        }
        let i = idx[(4 - lvl) as usize];
        match cur.get(&i) {
            None => {
                cur.insert(i, Node::Leaf { frame, flags: (flags & FLAGS) | if lvl > 1 { PS } else { 0 } });
                Applied { exp: Exp::MapOk, class: format!("Unmapped|allocs={}", req), requests: req }
            }
            Some(Node::Leaf { .. }) => Applied { exp: Exp::MapErr("PageAlreadyMapped"), class: "MappedSame".into(), requests: req },
            Some(Node::Table(t)) => Applied { exp: Exp::AnyErr, class: format!("CoversSmaller({})", if subtree_live(&t.kids) { "live" } else { "empty" }), requests: req },
        }
    }

    pub fn unmap(&mut self, va: u64, lvl: u8) -> Applied {
        let idx = indices(va);
        let i = idx[(4 - lvl) as usize];
        match self.descend(idx, lvl) {
            Desc::Missing(l) => Applied { exp: Exp::UnmapErr("PageNotMapped"), class: format!("Unmapped(no-table@level{})", l), requests: 0 },
            Desc::Huge(l) => Applied { exp: Exp::UnmapErr("ParentEntryHugePage"), class: format!("InsideLarger(level{})", l), requests: 0 },
            Desc::Slot(cur) => match cur.get(&i) {
                None => Applied { exp: Exp::UnmapErr("PageNotMapped"), class: "Unmapped(slot-empty)".into(), requests: 0 },
                Some(Node::Leaf { frame, .. }) => {
                    let f = *frame;
                    cur.remove(&i);
                    Applied { exp: Exp::UnmapOk { frame: f }, class: "MappedSame".into(), requests: 0 }
                }
                Some(Node::Table(t)) => Applied { exp: Exp::AnyErr, class: format!("CoversSmaller({})", if subtree_live(&t.kids) { "live" } else { "empty" }), requests: 0 },
            },
        }
    }

    pub fn update_flags(&mut self, va: u64, lvl: u8, flags: u64) -> Applied {
        let idx = indices(va);
        let i = idx[(4 - lvl) as usize];
        match self.descend(idx, lvl) {
            Desc::Missing(l) => Applied { exp: Exp::FlagsErr("PageNotMapped"), class: format!("Unmapped(no-table@level{})", l), requests: 0 },
            Desc::Huge(l) => Applied { exp: Exp::FlagsErr("ParentEntryHugePage"), class: format!("InsideLarger(level{})", l), requests: 0 },
            Desc::Slot(cur) => match cur.get_mut(&i) {
                None => Applied { exp: Exp::FlagsErr("PageNotMapped"), class: "Unmapped(slot-empty)".into(), requests: 0 },
                Some(Node::Leaf { flags: f, .. }) => {
                    *f = (flags & FLAGS) | if lvl > 1 { PS } else { 0 };
                    Applied { exp: Exp::FlagsOk, class: "MappedSame".into(), requests: 0 }
                }
                Some(Node::Table(t)) => Applied { exp: Exp::AnyErr, class: format!("CoversSmaller({})", if subtree_live(&t.kids) { "live" } else { "empty" }), requests: 0 },
            },
        }
    }

    /// set_flags_p{n}_entry for a page of level `lvl`
    pub fn set_parent_flags(&mut self, va: u64, lvl: u8, n: u8, flags: u64) -> Applied {
        if n <= lvl {
            return Applied { exp: Exp::SetErr("ParentEntryHugePage"), class: format!("no-p{}-parent-for-size", n), requests: 0 };
        }
        let idx = indices(va);
        let i = idx[(4 - n) as usize];
        match self.descend(idx, n) {
            Desc::Missing(l) => Applied { exp: Exp::SetErr("PageNotMapped"), class: format!("Unmapped(no-table@level{})", l), requests: 0 },
            Desc::Huge(l) => Applied { exp: Exp::SetErr("ParentEntryHugePage"), class: format!("InsideLarger(level{})", l), requests: 0 },
            Desc::Slot(cur) => match cur.get_mut(&i) {
                None => Applied { exp: Exp::SetErr("PageNotMapped"), class: "Unmapped(slot-empty)".into(), requests: 0 },
                Some(Node::Leaf { .. }) => Applied { exp: Exp::SetErr("ParentEntryHugePage"), class: format!("InsideLarger(level{}-leaf-is-target)", n), requests: 0 },
                Some(Node::Table(t)) => {
                    t.flags = flags & FLAGS;
                    t.touch = Touch::Exact;
                    Applied { exp: Exp::SetOk, class: "ParentTable".into(), requests: 0 }
                }
            },
        }
    }

    pub fn translate_page(&mut self, va: u64, lvl: u8) -> Applied {
        let idx = indices(va);
        let i = idx[(4 - lvl) as usize];
        match self.descend(idx, lvl) {
            Desc::Missing(l) => Applied { exp: Exp::TpErr("PageNotMapped"), class: format!("Unmapped(no-table@level{})", l), requests: 0 },
            Desc::Huge(l) => Applied { exp: Exp::TpErr("ParentEntryHugePage"), class: format!("InsideLarger(level{})", l), requests: 0 },
            Desc::Slot(cur) => match cur.get(&i) {
                None => Applied { exp: Exp::TpErr("PageNotMapped"), class: "Unmapped(slot-empty)".into(), requests: 0 },
                Some(Node::Leaf { frame, .. }) => Applied { exp: Exp::TpOk { frame: *frame }, class: "MappedSame".into(), requests: 0 },
                Some(Node::Table(t)) => Applied { exp: Exp::AnyErr, class: format!("CoversSmaller({})", if subtree_live(&t.kids) { "live" } else { "empty" }), requests: 0 },
            },
        }
    }

    /// what the history dictates for one address: (physical address, level of the leaf, leaf flags, eff W, eff U)
    pub fn lookup(&self, va: u64) -> Option<(u64, u8, u64, bool, bool)> {
        let idx = indices(va);
        let mut cur = &self.kids;
        let (mut w, mut u) = (true, true);
        for level in (1..=4u8).rev() {
            let i = idx[(4 - level) as usize];
            match cur.get(&i) {
                None => return None,
                Some(Node::Leaf { frame, flags }) => {
                    if flags & P == 0 {
                        return None;
                    }
                    let size: u64 = 1 << (12 + 9 * (level as u32 - 1));
                    w &= flags & W != 0;
                    u &= flags & (1 << 2) != 0;
                    return Some((frame | (va & (size - 1)), level, *flags, w, u));
                }
                Some(Node::Table(t)) => {
                    if t.flags & P == 0 {
                        return None;
                    }
                    w &= t.flags & W != 0;
                    u &= t.flags & (1 << 2) != 0;
                    cur = &t.kids;
                }
            }
        }
        None
    }

    /// all leaves: (virtual base (48-bit, not sign-extended), level, frame, flags)
    pub fn leaves(&self) -> Vec<(u64, u8, u64, u64)> {
        fn rec(k: &BTreeMap<u16, Node>, level: u8, base: u64, out: &mut Vec<(u64, u8, u64, u64)>) {
            for (&i, n) in k.iter() {
                let b = base | ((i as u64) << (12 + 9 * (level as u32 - 1)));
                match n {
                    Node::Leaf { frame, flags } => out.push((b, level, *frame, *flags)),
                    Node::Table(t) => rec(&t.kids, level - 1, b, out),
                }
            }
        }
        let mut out = Vec::new();
        rec(&self.kids, 4, 0, &mut out);
        out
    }

    /// all tables: (virtual base, level of the table, frame, number of entries)
    pub fn tables(&self) -> Vec<(u64, u8, Option<u64>, usize)> {
        fn rec(k: &BTreeMap<u16, Node>, level: u8, base: u64, out: &mut Vec<(u64, u8, Option<u64>, usize)>) {
            for (&i, n) in k.iter() {
                let b = base | ((i as u64) << (12 + 9 * (level as u32 - 1)));
                if let Node::Table(t) = n {
                    out.push((b, level - 1, t.frame, t.kids.len()));
                    rec(&t.kids, level - 1, b, out);
                }
            }
        }
        let mut out = Vec::new();
        rec(&self.kids, 4, 0, &mut out);
        out
    }
}

#[derive(Clone, Debug)]
pub struct Mismatch {
    pub path: Vec<u16>,
    /// stable short kind, used in signatures
    pub kind: &'static str,
    pub detail: String,
    /// the mismatch sits inside a table created by this call (zeroing problem)
    pub in_new_table: bool,
}

/// Compare the model (expected) with a dump (actual), bind new table frames to the allocator's frames of
/// this call and adopt actual parent flags that are inside the documented tolerance.
pub fn compare(m: &mut BTreeMap<u16, Node>, r: &BTreeMap<u16, RNode>, level: u8, path: &mut Vec<u16>, allocs: &mut Vec<(u64, bool)>, in_new: bool, out: &mut Vec<Mismatch>) {
    let keys: Vec<u16> = {
        let mut k: Vec<u16> = m.keys().copied().chain(r.keys().copied()).collect();
        k.sort_unstable();
        k.dedup();
        k
    };
    for i in keys {
        path.push(i);
        let mm = |kind: &'static str, detail: String, path: &Vec<u16>, in_new: bool| Mismatch { path: path.clone(), kind, detail, in_new_table: in_new };
        match (m.get_mut(&i), r.get(&i)) {
            (None, None) => {}
            (None, Some(rn)) => {
                let (kind, raw) = match rn {
                    RNode::Leaf { raw } => ("extra-leaf", *raw),
                    RNode::Table { raw, .. } => ("extra-table", *raw),
                    RNode::Dangling { raw } => ("extra-dangling-table-entry", *raw),
                    RNode::Garbage { raw } => ("extra-nonzero-nonpresent-entry", *raw),
                };
                out.push(mm(kind, format!("raw={:#x} at level {}", raw, level), path, in_new));
            }
            (Some(Node::Leaf { frame, flags }), None) => {
                out.push(mm("missing-leaf", format!("expected frame={:#x} flags={:#x} at level {}", frame, flags, level), path, in_new));
            }
            (Some(Node::Table(_)), None) => {
                out.push(mm("missing-table", format!("expected a table at level {}", level), path, in_new));
            }
            (Some(Node::Leaf { frame, flags }), Some(RNode::Leaf { raw })) => {
                let size: u64 = 1 << (12 + 9 * (level as u32 - 1));
                let rframe = raw & ADDR & !(size - 1);
                if rframe != *frame {
                    out.push(mm("leaf-frame-differs", format!("expected {:#x} got {:#x} (raw {:#x})", frame, rframe, raw), path, in_new));
                } else if raw & FLAGS != *flags {
                    out.push(mm("leaf-flags-differ", format!("expected {:#x} got {:#x} (raw {:#x})", flags, raw & FLAGS, raw), path, in_new));
                }
            }
            (Some(Node::Leaf { frame, flags }), Some(rn)) => {
                out.push(mm("leaf-became-nonleaf", format!("expected leaf frame={:#x} flags={:#x}, got {:?}", frame, flags, short(rn)), path, in_new));
            }
            (Some(Node::Table(_)), Some(RNode::Leaf { raw })) => {
                out.push(mm("table-became-leaf", format!("expected table, got leaf raw={:#x}", raw), path, in_new));
            }
            (Some(Node::Table(_)), Some(RNode::Dangling { raw })) => {
                out.push(mm("table-entry-dangling", format!("raw={:#x}", raw), path, in_new));
            }
            (Some(Node::Table(_)), Some(RNode::Garbage { raw })) => {
                out.push(mm("table-entry-not-present", format!("raw={:#x}", raw), path, in_new));
            }
            (Some(Node::Table(t)), Some(RNode::Table { raw, frame, kids })) => {
                let mut new_here = false;
                match t.frame {
                    None => {
                        new_here = true;
                        if let Some(a) = allocs.iter_mut().find(|a| a.0 == *frame && !a.1) {
                            a.1 = true;
                            t.frame = Some(*frame);
                        } else {
                            out.push(mm("new-table-frame-not-from-allocator", format!("frame {:#x}", frame), path, in_new));
                            t.frame = Some(*frame);
                        }
                    }
                    Some(f) => {
                        if f != *frame {
                            out.push(mm("table-frame-changed", format!("was {:#x} now {:#x}", f, frame), path, in_new));
                        }
                    }
                }
                let rf = raw & FLAGS;
                let ok = match t.touch {
                    Touch::None | Touch::Exact => rf == t.flags,
                    Touch::Created { req } => (req & !rf) == 0 && (rf & !(req | P | W)) == 0,
                    Touch::Path { old, req } => ((old | req) & !rf) == 0 && (rf & !(old | req | P | W)) == 0,
                };
                if !ok {
                    let kind = match t.touch {
                        Touch::Created { req } | Touch::Path { req, .. } if (req & !rf) != 0 => "parent-flags-lack-requested",
                        Touch::Path { old, .. } if (old & !rf) != 0 => "parent-flags-lost-earlier-flags",
                        Touch::Created { .. } | Touch::Path { .. } => "parent-flags-gained-unrequested",
                        Touch::Exact => "parent-flags-not-exactly-as-set",
                        Touch::None => "untouched-parent-flags-changed",
                    };
                    out.push(mm(kind, format!("touch={:?} actual={:#x} model={:#x}", t.touch, rf, t.flags), path, in_new));
                }
                t.flags = rf;
                t.touch = Touch::None;
                compare(&mut t.kids, kids, level - 1, path, allocs, in_new || new_here, out);
            }
        }
        path.pop();
    }
}

fn short(r: &RNode) -> String {
    match r {
        RNode::Leaf { raw } => format!("Leaf({:#x})", raw),
        RNode::Table { raw, frame, kids } => format!("Table(raw={:#x},frame={:#x},{} entries)", raw, frame, kids.len()),
        RNode::Dangling { raw } => format!("Dangling({:#x})", raw),
        RNode::Garbage { raw } => format!("Garbage({:#x})", raw),
    }
}

/// Build a model subtree from a dump (used to adopt the real state after clean_up, once its clauses are checked).
pub fn from_dump(r: &BTreeMap<u16, RNode>, level: u8) -> BTreeMap<u16, Node> {
    let mut m = BTreeMap::new();
    for (&i, n) in r.iter() {
        match n {
            RNode::Leaf { raw } => {
                let size: u64 = 1 << (12 + 9 * (level as u32 - 1));
                m.insert(i, Node::Leaf { frame: raw & ADDR & !(size - 1), flags: raw & FLAGS });
            }
            RNode::Table { raw, frame, kids } => {
                m.insert(i, Node::Table(Box::new(TableNode { frame: Some(*frame), flags: raw & FLAGS, touch: Touch::None, kids: from_dump(kids, level - 1) })));
            }
            _ => {}
        }
    }
    m
}
