//! E3 (half): a hardware-style 4-level walker written from the SDM. It uses only shifts and masks on raw
//! u64s read from simulated physical memory and calls nothing in the crate under test.
#![allow(dead_code)]

use crate::simphys::State;
use std::collections::BTreeMap;

pub const P: u64 = 1;
pub const W: u64 = 1 << 1;
pub const U: u64 = 1 << 2;
pub const PS: u64 = 1 << 7;
pub const NX: u64 = 1 << 63;
pub const ADDR: u64 = 0x000f_ffff_ffff_f000;
/// flag bits compared for leaves and tables: 0-11 and 52-63
pub const FLAGS: u64 = 0xfff | (0xfff << 52);

#[derive(Clone, Debug, PartialEq)]
pub enum RNode {
    /// present leaf: level 1 entry, or level 2/3 entry with PS
    Leaf { raw: u64 },
    /// present non-leaf entry pointing to a frame of the simulated memory
    Table { raw: u64, frame: u64, kids: BTreeMap<u16, RNode> },
    /// present non-leaf entry pointing outside the simulated memory
    Dangling { raw: u64 },
    /// non-zero entry without PRESENT, or a level-4 entry with PS
    Garbage { raw: u64 },
}

#[derive(Clone, Debug)]
pub struct Dump {
    pub root: u64,
    pub kids: BTreeMap<u16, RNode>,
    /// every frame reached as a table (incl. root) -> level
    pub tables: BTreeMap<u64, u8>,
    pub entries_read: u64,
}

fn dump_table(st: &State, frame: u64, level: u8, tables: &mut BTreeMap<u64, u8>, reads: &mut u64) -> BTreeMap<u16, RNode> {
    let mut kids = BTreeMap::new();
    let fi = match st.frame_index(frame) {
        Some(i) => i,
        None => return kids,
    };
    tables.insert(frame, level);
    for i in 0..512usize {
        let raw = st.read(fi, i);
        *reads += 1;
        if raw == 0 {
            continue;
        }
        let node = if raw & P == 0 {
            RNode::Garbage { raw }
        } else if level == 1 {
            RNode::Leaf { raw }
        } else if raw & PS != 0 {
            if level == 4 {
                RNode::Garbage { raw }
            } else {
                RNode::Leaf { raw }
            }
        } else {
            let child = raw & ADDR;
            if st.frame_index(child).is_some() {
                let k = dump_table(st, child, level - 1, tables, reads);
                RNode::Table { raw, frame: child, kids: k }
            } else {
                RNode::Dangling { raw }
            }
        };
        kids.insert(i as u16, node);
    }
    kids
}

pub fn dump(st: &State, root: u64) -> Dump {
    dump_skip(st, root, None)
}

/// like `dump`, but leaves out one level-4 slot (the recursive entry of a RecursivePageTable)
pub fn dump_skip(st: &State, root: u64, skip_l4: Option<u16>) -> Dump {
    let mut tables = BTreeMap::new();
    let mut reads = 0;
    let saved = skip_l4.and_then(|i| st.frame_index(root).map(|fi| (fi, i as usize, st.read(fi, i as usize))));
    let mut kids = BTreeMap::new();
    if let Some(fi) = st.frame_index(root) {
        tables.insert(root, 4);
        for i in 0..512usize {
            if Some(i as u16) == skip_l4 {
                continue;
            }
            let raw = st.read(fi, i);
            reads += 1;
            if raw == 0 {
                continue;
            }
            let node = if raw & P == 0 || raw & PS != 0 {
                RNode::Garbage { raw }
            } else {
                let child = raw & ADDR;
                if st.frame_index(child).is_some() {
                    let k = dump_table(st, child, 3, &mut tables, &mut reads);
                    RNode::Table { raw, frame: child, kids: k }
                } else {
                    RNode::Dangling { raw }
                }
            };
            kids.insert(i as u16, node);
        }
    }
    let _ = saved;
    Dump { root, kids, tables, entries_read: reads }
}

#[derive(Clone, Copy, Debug, PartialEq)]
pub enum Walk {
    NotPresent,
    /// walk left the simulated memory
    Stray { level: u8, frame: u64 },
    Mapped { pa: u64, size: u64, leaf_raw: u64, eff_w: bool, eff_u: bool, eff_nx: bool },
}

/// translate one virtual address the way the MMU would, from raw memory
pub fn walk(st: &State, root: u64, va: u64) -> Walk {
    let mut frame = root;
    let (mut w, mut u, mut nx) = (true, true, false);
    for level in (1..=4u8).rev() {
        let fi = match st.frame_index(frame) {
            Some(i) => i,
            None => return Walk::Stray { level, frame },
        };
        let idx = ((va >> (12 + 9 * (level as u32 - 1))) & 0x1ff) as usize;
        let raw = st.read(fi, idx);
        if raw & P == 0 {
            return Walk::NotPresent;
        }
        w &= raw & W != 0;
        u &= raw & U != 0;
        nx |= raw & NX != 0;
        let leaf = level == 1 || (level < 4 && raw & PS != 0);
        if leaf {
            let size: u64 = 1 << (12 + 9 * (level as u32 - 1));
            let base = raw & ADDR & !(size - 1);
            return Walk::Mapped { pa: base | (va & (size - 1)), size, leaf_raw: raw, eff_w: w, eff_u: u, eff_nx: nx };
        }
        if level == 4 && raw & PS != 0 {
            return Walk::NotPresent; // reserved bit: #PF on hardware
        }
        frame = raw & ADDR;
    }
    Walk::NotPresent
}
