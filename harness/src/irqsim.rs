//! E6: simulated interrupt delivery in ring 3.
//!
//! `deliver` switches to a scratch stack, pushes SS, RSP, RFLAGS, CS, RIP (and an error code) exactly as the
//! CPU does on interrupt entry in 64-bit mode, and jumps to a handler address (taken by the caller from the raw
//! IDT bytes). The `extern "x86-interrupt"` stub runs natively and returns with its own `iretq` to the frame's
//! RIP (our resume label) / RSP / RFLAGS, which the resume code records. Diverging handlers leave through
//! `escape`, which restores the saved context instead of returning.
#![allow(dead_code)]

use core::arch::{asm, naked_asm};
use core::mem::offset_of;

#[repr(C)]
#[derive(Default, Clone, Copy, Debug)]
pub struct Params {
    // inputs
    pub handler: u64,
    pub has_err: u64,
    pub err: u64,
    pub flags: u64,
    pub frame_rsp: u64,
    pub scratch_top: u64,
    pub cs: u64,
    pub ss: u64,
    /// 0 = push a hardware frame and jump to `handler`; 1 = call `handler` as extern "C" fn(*mut Params) -> ! on the scratch stack
    pub mode: u64,
    // outputs
    pub out_rsp: u64,
    pub out_flags: u64,
    /// 1 = resumed through iretq at the resume label, 2 = left through `escape`
    pub out_path: u64,
    pub saved_rsp: u64,
    pub resume_rip: u64,
    /// RSP seen by the handler at entry (filled by observers that want it)
    pub entry_rsp: u64,
    /// RFLAGS of the caller of `deliver`, put back right after the resumed context's RFLAGS were recorded (the frame may
    /// carry NT or AC, with which this process must not keep running)
    pub saved_flags: u64,
}

pub static mut CUR: *mut Params = core::ptr::null_mut();

#[unsafe(naked)]
pub unsafe extern "C" fn deliver(p: *mut Params) {
    naked_asm!(
        "push rbx",
        "push rbp",
        "push r12",
        "push r13",
        "push r14",
        "push r15",
        "mov [rdi + {saved_rsp}], rsp",
        "pushfq",
        "pop qword ptr [rdi + {saved_flags}]",
        "mov [rip + {cur}], rdi",
        "lea rax, [rip + 2f]",
        "mov [rdi + {resume_rip}], rax",
        "mov rsp, [rdi + {scratch_top}]",
        "cmp qword ptr [rdi + {mode}], 0",
        "jne 5f",
        "push qword ptr [rdi + {ss}]",
        "push qword ptr [rdi + {frame_rsp}]",
        "push qword ptr [rdi + {flags}]",
        "push qword ptr [rdi + {cs}]",
        "push rax",
        "cmp qword ptr [rdi + {has_err}], 0",
        "je 3f",
        "push qword ptr [rdi + {err}]",
        "3:",
        "jmp qword ptr [rdi + {handler}]",
        "5:",
        "call qword ptr [rdi + {handler}]",
        "ud2",
        // ---- resumed by the handler's iretq: RSP/RFLAGS are the frame's values
        "2:",
        "mov rdi, [rip + {cur}]",
        "mov [rdi + {out_rsp}], rsp",
        "mov rsp, [rdi + {saved_rsp}]",
        "pushfq",
        "pop qword ptr [rdi + {out_flags}]",
        "push qword ptr [rdi + {saved_flags}]",
        "popfq",
        "mov qword ptr [rdi + {out_path}], 1",
        "cld",
        "pop r15",
        "pop r14",
        "pop r13",
        "pop r12",
        "pop rbp",
        "pop rbx",
        "ret",
        saved_rsp = const offset_of!(Params, saved_rsp),
        resume_rip = const offset_of!(Params, resume_rip),
        scratch_top = const offset_of!(Params, scratch_top),
        mode = const offset_of!(Params, mode),
        ss = const offset_of!(Params, ss),
        frame_rsp = const offset_of!(Params, frame_rsp),
        flags = const offset_of!(Params, flags),
        cs = const offset_of!(Params, cs),
        has_err = const offset_of!(Params, has_err),
        err = const offset_of!(Params, err),
        handler = const offset_of!(Params, handler),
        out_rsp = const offset_of!(Params, out_rsp),
        out_flags = const offset_of!(Params, out_flags),
        out_path = const offset_of!(Params, out_path),
        saved_flags = const offset_of!(Params, saved_flags),
        cur = sym CUR,
    )
}

/// leave a handler that must not return: restore the context saved by `deliver` and return from it
pub unsafe fn escape() -> ! {
    unsafe {
        asm!(
            "mov rdi, [rip + {cur}]",
            "mov rsp, [rdi + {saved_rsp}]",
            "mov qword ptr [rdi + {out_path}], 2",
            "cld",
            "pop r15",
            "pop r14",
            "pop r13",
            "pop r12",
            "pop rbp",
            "pop rbx",
            "ret",
            cur = sym CUR,
            saved_rsp = const offset_of!(Params, saved_rsp),
            out_path = const offset_of!(Params, out_path),
            options(noreturn)
        )
    }
}

pub fn own_cs_ss() -> (u16, u16) {
    let (cs, ss): (u16, u16);
    unsafe {
        asm!("mov {0:x}, cs", "mov {1:x}, ss", out(reg) cs, out(reg) ss, options(nomem, nostack));
    }
    (cs, ss)
}

pub struct Stack {
    base: *mut u8,
    size: usize,
}

impl Stack {
    pub fn new(size: usize) -> Stack {
        let base = unsafe { libc::mmap(core::ptr::null_mut(), size, libc::PROT_READ | libc::PROT_WRITE, libc::MAP_PRIVATE | libc::MAP_ANONYMOUS, -1, 0) } as *mut u8;
        assert!(!base.is_null());
        Stack { base, size }
    }
    /// 16-byte aligned top
    pub fn top(&self) -> u64 {
        (self.base as u64 + self.size as u64) & !0xf
    }
    pub fn contains(&self, a: u64) -> bool {
        a >= self.base as u64 && a < self.base as u64 + self.size as u64
    }
    pub fn lo(&self) -> u64 {
        self.base as u64
    }
}

impl Drop for Stack {
    fn drop(&mut self) {
        unsafe { libc::munmap(self.base as *mut libc::c_void, self.size) };
    }
}
