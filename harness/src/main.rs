//! vx: runtime monitors for rust-osdev/x86_64 (see /verif/DESIGN.md).
#![feature(step_trait)]
#![cfg_attr(target_arch = "x86_64", feature(abi_x86_interrupt))]
#![allow(clippy::all)]

mod gen;
#[cfg(target_arch = "x86_64")]
mod hwwalk;
#[cfg(target_arch = "x86_64")]
mod irqsim;
#[cfg(target_arch = "x86_64")]
mod refmodel;
#[cfg(target_arch = "x86_64")]
mod simphys;
#[cfg(all(not(miri), target_arch = "x86_64"))]
mod softmmu;
#[cfg(target_arch = "x86_64")]
mod trapemu;
mod props;
mod util;

use std::collections::BTreeMap;
use std::time::Instant;
use util::{Args, Report};

fn usage() -> ! {
    eprintln!("usage: vx <prop> [--tier quick|thorough] [--seed N] [--shard i/n] [--out file] [--scale f] [--key value]...");
    std::process::exit(2);
}

fn main() {
    let argv: Vec<String> = std::env::args().collect();
    if argv.len() < 2 {
        usage();
    }
    let mut a = Args {
        prop: argv[1].clone(),
        tier: "quick".into(),
        seed: 1,
        shard: 0,
        nshards: 1,
        out: None,
        scale: 1.0,
        extra: BTreeMap::new(),
    };
    let mut i = 2;
    while i < argv.len() {
        let k = argv[i].clone();
        let v = argv.get(i + 1).cloned().unwrap_or_default();
        match k.as_str() {
            "--tier" => a.tier = v,
            "--seed" => a.seed = v.parse().unwrap_or(1),
            "--shard" => {
                let mut it = v.split('/');
                a.shard = it.next().and_then(|s| s.parse().ok()).unwrap_or(0);
                a.nshards = it.next().and_then(|s| s.parse().ok()).unwrap_or(1);
            }
            "--out" => a.out = Some(v),
            "--scale" => a.scale = v.parse().unwrap_or(1.0),
            _ if k.starts_with("--") => {
                a.extra.insert(k[2..].to_string(), v);
            }
            _ => usage(),
        }
        i += 2;
    }
    util::silence_panics();
    let t0 = Instant::now();
    let mut rep = Report::new(&a.prop.to_uppercase());
    {
        let e = util::emergency();
        e.report = &mut rep as *mut Report;
        e.out = a.out.clone();
        e.seed = a.seed;
        e.shard = a.shard;
        e.t0 = Some(t0);
    }
    let known = props::run(&a, &mut rep);
    if !known {
        eprintln!("unknown property {}", a.prop);
        std::process::exit(2);
    }
    let wall = t0.elapsed().as_secs_f64();
    let js = rep.to_json(a.seed, a.shard, wall).to_string();
    match &a.out {
        Some(p) => std::fs::write(p, js).expect("write out"),
        None => println!("{}", js),
    }
    if rep.inconclusive.is_some() {
        std::process::exit(2);
    }
    if !rep.violations.is_empty() {
        std::process::exit(1);
    }
}
