//! E2: simulated physical memory (arena backend) with monitoring allocator / deallocator / frame mapping.
//!
//! All access by the monitors goes through raw pointers with volatile reads, never through references,
//! so the monitors do not interfere with the references the mapper under test creates.
#![allow(dead_code)]

use crate::util::Rng;
use std::alloc::{alloc, dealloc, Layout};
use std::cell::UnsafeCell;
use std::collections::BTreeMap;
use x86_64::structures::paging::mapper::PageTableFrameMapping;
use x86_64::structures::paging::{FrameAllocator, FrameDeallocator, PageTable, PhysFrame, Size4KiB};
use x86_64::PhysAddr;

pub const FRAME: usize = 4096;

#[derive(Clone, Copy, PartialEq, Eq, Debug)]
pub enum Role {
    /// level-4 table
    Root,
    /// handed out by the allocator and not (yet) deallocated
    Allocated,
    /// never handed out or handed back: garbage-filled, allocatable
    Free,
    /// decoy data frame (target of mappings), garbage-filled, never allocatable
    Data,
}

#[derive(Clone, Copy, PartialEq, Eq, Debug)]
pub enum Policy {
    FreshFirst,
    RecycledFirst,
    Random,
    HugeAlignedFirst,
    LowFirst,
    HighFirst,
}

#[derive(Clone, Debug)]
pub struct AllocEvent {
    pub frame: Option<u64>,
    pub dealloc: bool,
}

pub struct State {
    pub ptrs: Vec<*mut u8>,
    pub phys: Vec<u64>,
    pub index: BTreeMap<u64, usize>,
    pub role: Vec<Role>,
    pub recycled: Vec<usize>,
    pub ever_allocated: Vec<bool>,
    pub policy: Policy,
    pub rng: Rng,
    /// allocation requests of the current call
    pub log: Vec<AllocEvent>,
    /// fail the n-th (1-based) request of the current call (and every later one if `fail_all_from`)
    pub fail_at: Option<usize>,
    pub fail_all: bool,
    pub requests_this_call: usize,
    /// frame_to_pointer log of the current call: (phys, was a known frame)
    pub f2p_log: Vec<(u64, bool)>,
    pub f2p_total: u64,
    /// monitor verdicts raised inside callbacks: (property, signature, detail)
    pub callback_violations: Vec<(String, String, String)>,
    /// in-callback C10 checks performed / tables walked by them since the counter was last drained
    pub in_callback_checks: u64,
    pub in_callback_tables_walked: u64,
    /// frames poisoned by the deallocator during the current call
    pub poisoned_this_call: Vec<usize>,
    /// what the deallocator left in each frame released during the current call (the mapper must not touch it again)
    pub poison_copy: Vec<(usize, Vec<u64>)>,
    /// live translations (va, pa, size) that must read the same from raw memory at every deallocator callback of the
    /// current clean-up call (set by the monitor before the call, opt-level-0 flavour)
    pub watch: Vec<(u64, u64, u64)>,
    /// set of frames the monitor currently believes are tables (for frame_to_pointer checking)
    pub table_frames: BTreeMap<u64, u8>,
    /// scratch table handed out when the mapper asks for a frame that does not exist
    pub scratch: *mut u8,
    pub contiguous_block: Option<(*mut u8, usize)>,
    pub memfd_block: Option<(*mut u8, usize)>,
    pub root: usize,
    /// hook run inside deallocate_frame before poisoning (C10 "at that moment" checks)
    pub dealloc_hook: Option<fn(&mut State, u64)>,
    pub hook_ctx: u64,
    pub poison_on_free: bool,
    /// memfd backing the frames (software-MMU backend), -1 otherwise
    pub memfd: i32,
}

pub struct Arena {
    st: UnsafeCell<State>,
}

#[derive(Clone, Copy)]
pub struct StRef(*mut State);

impl core::ops::Deref for StRef {
    type Target = State;
    #[inline]
    fn deref(&self) -> &State {
        unsafe { &*self.0 }
    }
}
impl core::ops::DerefMut for StRef {
    #[inline]
    fn deref_mut(&mut self) -> &mut State {
        unsafe { &mut *self.0 }
    }
}

fn layout() -> Layout {
    Layout::from_size_align(FRAME, FRAME).unwrap()
}

impl Arena {
    /// handle to the state: every field access / method call through it creates a reference that lives only for that
    /// expression, so monitors, allocator callbacks and the frame mapping never hold overlapping `&mut State`
    #[inline]
    pub fn st(&self) -> StRef {
        StRef(self.st.get())
    }

    /// `phys`: distinct 4 KiB-aligned physical addresses; `contiguous`: one block (needed for OffsetPageTable)
    pub fn new(phys: Vec<u64>, contiguous: bool, n_data: usize, seed: u64) -> Arena {
        Arena::new_backend(phys, contiguous, false, n_data, seed)
    }

    /// memfd backend: every frame is a slot of a memfd that is mapped once linearly for the monitors and can be
    /// aliased at other virtual addresses by the software MMU
    #[cfg(not(miri))]
    pub fn new_memfd(phys: Vec<u64>, n_data: usize, seed: u64) -> Arena {
        Arena::new_backend(phys, false, true, n_data, seed)
    }

    pub fn new_backend(phys: Vec<u64>, contiguous: bool, memfd: bool, n_data: usize, seed: u64) -> Arena {
        let n = phys.len();
        let mut ptrs = Vec::with_capacity(n);
        let mut block = None;
        let mut fd: i32 = -1;
        #[cfg(not(miri))]
        if memfd {
            unsafe {
                fd = libc::memfd_create(b"vx-simphys\0".as_ptr() as *const libc::c_char, 0);
                assert!(fd >= 0);
                assert!(libc::ftruncate(fd, ((n + 1) * FRAME) as libc::off_t) == 0);
                let b = libc::mmap(core::ptr::null_mut(), (n + 1) * FRAME, libc::PROT_READ | libc::PROT_WRITE, libc::MAP_SHARED, fd, 0) as *mut u8;
                assert!(b as isize != -1);
                for i in 0..n {
                    ptrs.push(b.add(i * FRAME));
                }
                block = Some((b, n + 1));
            }
        }
        if fd >= 0 {
            // frames come from the memfd mapping
        } else if contiguous {
            let l = Layout::from_size_align(FRAME * n, FRAME).unwrap();
            let b = unsafe { alloc(l) };
            assert!(!b.is_null());
            for i in 0..n {
                ptrs.push(unsafe { b.add(i * FRAME) });
            }
            block = Some((b, n));
        } else {
            for _ in 0..n {
                let p = unsafe { alloc(layout()) };
                assert!(!p.is_null());
                ptrs.push(p);
            }
        }
        let scratch = unsafe { alloc(layout()) };
        let mut index = BTreeMap::new();
        for (i, &p) in phys.iter().enumerate() {
            assert!(p % 4096 == 0 && p < (1 << 52));
            assert!(index.insert(p, i).is_none(), "duplicate phys");
        }
        let mut role = vec![Role::Free; n];
        role[0] = Role::Root;
        for i in 0..n_data.min(n.saturating_sub(2)) {
            role[n - 1 - i] = Role::Data;
        }
        let is_memfd = fd >= 0;
        let a = Arena {
            st: UnsafeCell::new(State {
                ptrs,
                phys,
                index,
                role,
                recycled: Vec::new(),
                ever_allocated: vec![false; n],
                policy: Policy::FreshFirst,
                rng: Rng::new(seed ^ 0x5151),
                log: Vec::new(),
                fail_at: None,
                fail_all: false,
                requests_this_call: 0,
                f2p_log: Vec::new(),
                f2p_total: 0,
                callback_violations: Vec::new(),
                in_callback_checks: 0,
                in_callback_tables_walked: 0,
                poisoned_this_call: Vec::new(),
                poison_copy: Vec::new(),
                watch: Vec::new(),
                table_frames: BTreeMap::new(),
                scratch,
                contiguous_block: if is_memfd { None } else { block },
                memfd_block: if is_memfd { block } else { None },
                root: 0,
                dealloc_hook: None,
                hook_ctx: 0,
                poison_on_free: true,
                memfd: fd,
            }),
        };
        let mut s = a.st();
        for i in 0..n {
            if i == 0 {
                s.fill(i, 0);
            } else {
                s.poison(i);
            }
        }
        unsafe { core::ptr::write_bytes(s.scratch, 0, FRAME) };
        a
    }

    pub fn root_ptr(&self) -> *mut PageTable {
        let s = self.st();
        s.ptrs[s.root] as *mut PageTable
    }
    pub fn root_phys(&self) -> u64 {
        let s = self.st();
        s.phys[s.root]
    }
    pub fn mapping(&self) -> ArenaMapping {
        ArenaMapping { arena: self as *const Arena }
    }
    pub fn allocator(&self) -> ArenaAlloc {
        ArenaAlloc { arena: self as *const Arena }
    }
    /// for OffsetPageTable: virtual = offset + phys
    pub fn offset(&self) -> Option<u64> {
        let s = self.st();
        s.contiguous_block.map(|(b, _)| (b as usize as u64).wrapping_sub(s.phys[0]))
    }
}

impl Drop for Arena {
    fn drop(&mut self) {
        let s = self.st();
        unsafe {
            if let Some((b, n)) = s.memfd_block {
                #[cfg(not(miri))]
                {
                    libc::munmap(b as *mut libc::c_void, n * FRAME);
                    libc::close(s.memfd);
                }
                let _ = (b, n);
            } else if let Some((b, n)) = s.contiguous_block {
                dealloc(b, Layout::from_size_align(FRAME * n, FRAME).unwrap());
            } else {
                for &p in s.ptrs.iter() {
                    dealloc(p, layout());
                }
            }
            dealloc(s.scratch, layout());
        }
    }
}

impl State {
    pub fn n(&self) -> usize {
        self.ptrs.len()
    }
    #[inline]
    pub fn read(&self, frame_idx: usize, slot: usize) -> u64 {
        unsafe { (self.ptrs[frame_idx] as *const u64).add(slot).read_volatile() }
    }
    #[inline]
    pub fn write(&mut self, frame_idx: usize, slot: usize, v: u64) {
        unsafe { (self.ptrs[frame_idx] as *mut u64).add(slot).write_volatile(v) }
    }
    pub fn fill(&mut self, i: usize, byte: u8) {
        unsafe { core::ptr::write_bytes(self.ptrs[i], byte, FRAME) };
    }
    /// garbage that is never zero and, read as a page-table entry, looks PRESENT (bit 0) half of the time
    pub fn poison(&mut self, i: usize) {
        for s in 0..512 {
            let mut v = self.rng.next() | 0x0100_0000_0100_0000;
            if s % 2 == 0 {
                v |= 1;
            }
            self.write(i, s, v);
        }
    }
    pub fn frame_index(&self, phys: u64) -> Option<usize> {
        self.index.get(&phys).copied()
    }
    pub fn begin_call(&mut self) {
        self.log.clear();
        self.f2p_log.clear();
        self.requests_this_call = 0;
        self.poisoned_this_call.clear();
        self.poison_copy.clear();
    }
    pub fn free_count(&self) -> usize {
        self.role.iter().filter(|&&r| r == Role::Free).count()
    }
    /// copy of all frame contents
    pub fn snapshot(&self) -> Vec<u64> {
        let mut v = Vec::with_capacity(self.n() * 512);
        for i in 0..self.n() {
            for s in 0..512 {
                v.push(self.read(i, s));
            }
        }
        v
    }
    pub fn restore(&mut self, snap: &[u64]) {
        for i in 0..self.n() {
            for s in 0..512 {
                self.write(i, s, snap[i * 512 + s]);
            }
        }
    }
    fn choose(&mut self) -> Option<usize> {
        let free: Vec<usize> = (0..self.n()).filter(|&i| self.role[i] == Role::Free).collect();
        if free.is_empty() {
            return None;
        }
        let fresh: Vec<usize> = free.iter().copied().filter(|&i| !self.ever_allocated[i]).collect();
        let pick = match self.policy {
            Policy::FreshFirst => fresh.first().copied().unwrap_or(free[0]),
            Policy::RecycledFirst => {
                let mut r = None;
                while let Some(i) = self.recycled.pop() {
                    if self.role[i] == Role::Free {
                        r = Some(i);
                        break;
                    }
                }
                r.unwrap_or(free[0])
            }
            Policy::Random => free[self.rng.below(free.len() as u64) as usize],
            Policy::HugeAlignedFirst => free
                .iter()
                .copied()
                .max_by_key(|&i| self.phys[i].trailing_zeros().min(40))
                .unwrap(),
            Policy::LowFirst => free.iter().copied().min_by_key(|&i| self.phys[i]).unwrap(),
            Policy::HighFirst => free.iter().copied().max_by_key(|&i| self.phys[i]).unwrap(),
        };
        Some(pick)
    }
}

#[derive(Clone, Copy)]
pub struct ArenaAlloc {
    arena: *const Arena,
}

unsafe impl FrameAllocator<Size4KiB> for ArenaAlloc {
    fn allocate_frame(&mut self) -> Option<PhysFrame<Size4KiB>> {
        let mut s = unsafe { &*self.arena }.st();
        s.requests_this_call += 1;
        let fail = match s.fail_at {
            Some(k) => s.requests_this_call == k || (s.fail_all && s.requests_this_call >= k),
            None => false,
        };
        if fail {
            s.log.push(AllocEvent { frame: None, dealloc: false });
            return None;
        }
        match s.choose() {
            None => {
                s.log.push(AllocEvent { frame: None, dealloc: false });
                None
            }
            Some(i) => {
                s.role[i] = Role::Allocated;
                s.ever_allocated[i] = true;
                let p = s.phys[i];
                s.table_frames.insert(p, 0);
                s.log.push(AllocEvent { frame: Some(p), dealloc: false });
                Some(PhysFrame::containing_address(PhysAddr::new(p)))
            }
        }
    }
}

impl FrameDeallocator<Size4KiB> for ArenaAlloc {
    unsafe fn deallocate_frame(&mut self, frame: PhysFrame<Size4KiB>) {
        let mut s = unsafe { &*self.arena }.st();
        let p = frame.start_address().as_u64();
        s.log.push(AllocEvent { frame: Some(p), dealloc: true });
        if let Some(h) = s.dealloc_hook {
            h(&mut s, p);
        }
        // C10 "at that moment" clauses, judged inside the callback from raw memory (volatile reads): the table being released
        // holds no entry, and no present entry of any live table still points to it. Only in the opt-level-0 flavour: the
        // mapper clears the parent entry through a `&mut` (noalias) immediately before this call, and an optimising build
        // may legally sink that store below the call, which an observer inside the callback would misread as "still
        // linked" (not seen with the current compiler, but the check must never alarm on a correct tree). Not under Miri either (reading behind a live `&mut`).
        if cfg!(vx_opt0) && !cfg!(miri) {
            if let Some(i) = s.frame_index(p) {
                if s.role[i] == Role::Allocated {
                    let nonzero = (0..512).filter(|&k| s.read(i, k) != 0).count();
                    if nonzero != 0 {
                        s.callback_violations.push(("C10".into(), "dealloc|table-not-empty-at-the-moment-of-deallocation".into(), format!("deallocate_frame({:#x}) while {} of its entries are non-zero", p, nonzero)));
                    }
                    // structural walk from the root, the way the MMU would reach a table: present, non-huge entries of
                    // levels 4..2 only (a level-1 entry is a leaf whose frame may legitimately equal a table's address)
                    let mut linked_from = None;
                    let root_phys = s.phys[s.root];
                    let mut stack: Vec<(usize, u8)> = vec![(s.root, 4)];
                    let mut visited = 0usize;
                    while let Some((j, lvl)) = stack.pop() {
                        visited += 1;
                        if visited > 4 * s.n() + 8 {
                            break;
                        }
                        for k in 0..512 {
                            let e = s.read(j, k);
                            if e & 1 == 0 || (lvl < 4 && e & 0x80 != 0) {
                                continue;
                            }
                            let t = e & 0x000f_ffff_ffff_f000;
                            if lvl == 4 && t == root_phys {
                                continue; // recursive entry
                            }
                            if t == p {
                                linked_from = Some((s.phys[j], k));
                            }
                            if lvl > 2 {
                                if let Some(c) = s.frame_index(t) {
                                    if c != i {
                                        stack.push((c, lvl - 1));
                                    }
                                }
                            }
                        }
                    }
                    s.in_callback_checks += 1;
                    s.in_callback_tables_walked += visited as u64;
                    // clean-up never changes a translation - not for a moment either: another CPU walks these tables
                    // while it runs. The watched live pages read the same from raw memory right now.
                    let watch = s.watch.clone();
                    for (va, pa, size) in watch {
                        let ok = matches!(crate::hwwalk::walk(&s, root_phys, va), crate::hwwalk::Walk::Mapped { pa: p2, size: s2, .. } if p2 == pa && s2 == size);
                        if !ok {
                            s.callback_violations.push(("C10".into(), "dealloc|translation-of-a-live-page-broken-while-clean_up-runs".into(), format!("at deallocate_frame({:#x}) the live page {:#x} -> {:#x} no longer translates", p, va, pa)));
                            s.callback_violations.push(("C01".into(), "dealloc|translation-of-a-live-page-broken-while-clean_up-runs".into(), format!("at deallocate_frame({:#x}) the live page {:#x} -> {:#x} no longer translates", p, va, pa)));
                            break;
                        }
                    }
                    if let Some((pf, k)) = linked_from {
                        s.callback_violations.push(("C10".into(), "dealloc|table-still-linked-at-the-moment-of-deallocation".into(), format!("deallocate_frame({:#x}) while entry {} of table {:#x} still points to it", p, k, pf)));
                        // (the allocator may hand the frame out again at once: a live entry pointing into it is also a
                        // memory-safety matter)
                        s.callback_violations.push(("C09".into(), "dealloc|frame-released-while-a-live-entry-still-points-to-it".into(), format!("deallocate_frame({:#x}) while entry {} of table {:#x} still points to it", p, k, pf)));
                    }
                }
            }
        }
        match s.frame_index(p) {
            Some(i) if s.role[i] == Role::Allocated => {
                s.role[i] = Role::Free;
                s.recycled.push(i);
                s.table_frames.remove(&p);
                if s.poison_on_free {
                    s.poison(i);
                    s.poisoned_this_call.push(i);
                    let copy: Vec<u64> = (0..512).map(|k| s.read(i, k)).collect();
                    s.poison_copy.push((i, copy));
                }
            }
            Some(i) => {
                let what = format!("{:?}", s.role[i]);
                s.callback_violations.push((
                    "C10".into(),
                    format!("dealloc|frame-role-{}", what),
                    format!("deallocate_frame({:#x}) but that frame is {}", p, what),
                ));
            }
            None => {
                s.callback_violations.push((
                    "C10".into(),
                    "dealloc|unknown-frame".into(),
                    format!("deallocate_frame({:#x}): not a frame of the simulated memory", p),
                ));
            }
        }
    }
}

#[derive(Clone, Copy)]
pub struct ArenaMapping {
    arena: *const Arena,
}

unsafe impl PageTableFrameMapping for ArenaMapping {
    fn frame_to_pointer(&self, frame: PhysFrame) -> *mut PageTable {
        let mut s = unsafe { &*self.arena }.st();
        let p = frame.start_address().as_u64();
        s.f2p_total += 1;
        match s.frame_index(p) {
            Some(i) => {
                let is_table = s.role[i] == Role::Root || s.table_frames.contains_key(&p);
                s.f2p_log.push((p, is_table));
                s.ptrs[i] as *mut PageTable
            }
            None => {
                s.f2p_log.push((p, false));
                // a poisoned-but-harmless scratch table keeps the process alive; the request itself is the violation
                unsafe { core::ptr::write_bytes(s.scratch, 0, FRAME) };
                s.scratch as *mut PageTable
            }
        }
    }
}
