#!/bin/sh
# Diagnostic (not a registered check): which functions / lines of /repo/src does the quick workload of every property reach?
# Builds an instrumented vx (-Cinstrument-coverage) in harness/target-cov, runs one small shard per property, and prints
# the crate's functions that were never executed. Usage: ./coverage.sh [props...]   (default: all 20)
set -e
cd "$(dirname "$0")/harness"
BIN=$(rustc +nightly --print sysroot)/lib/rustlib/x86_64-unknown-linux-gnu/bin
export CARGO_NET_OFFLINE=true CARGO_TARGET_DIR=target-cov
export RUSTFLAGS="--cfg x86_64_verif --check-cfg cfg(x86_64_verif) -Cinstrument-coverage"
cargo +nightly build --offline --quiet
PROPS="${*:-c01 c02 c03 c04 c05 c06 c07 c08 c09 c10 c11 c12 c13 c14 c15 c16 c17 c18 c19 c20}"
D=target-cov/prof; rm -rf $D; mkdir -p $D
for p in $PROPS; do
  LLVM_PROFILE_FILE="$D/$p-%p.profraw" ./target-cov/debug/vx $p --seed 1 --shard 0/16 --out $D/$p.json >/dev/null 2>&1 || echo "note: $p rc=$?"
done
$BIN/llvm-profdata merge -sparse $D/*.profraw -o $D/all.profdata
$BIN/llvm-cov report ./target-cov/debug/vx -instr-profile=$D/all.profdata --ignore-filename-regex='(/verif/|/rustc/|\.cargo|rustlib)' 2>/dev/null | tail -60
$BIN/llvm-cov export ./target-cov/debug/vx -instr-profile=$D/all.profdata --ignore-filename-regex='(/verif/|/rustc/|\.cargo|rustlib)' -format=lcov > $D/all.lcov 2>/dev/null
python3 - $D/all.lcov <<'PY'
import sys, re, subprocess, collections
fn = collections.OrderedDict(); cur = None
for l in open(sys.argv[1]):
    l = l.strip()
    if l.startswith("SF:"): cur = l[3:]
    elif l.startswith("FNDA:"):
        c, name = l[5:].split(",", 1)
        fn.setdefault((cur, name), 0); fn[(cur, name)] += int(c)
names = sorted(set(n for (_, n), c in fn.items()))
dem = subprocess.run(["rustfilt"], input="\n".join(names), capture_output=True, text=True).stdout.split("\n") if False else names
un = collections.defaultdict(set)
for (f, n), c in fn.items():
    if c == 0: un[f].add(n)
hit = set(n for (f, n), c in fn.items() if c > 0)
print("\nfunctions of the crate never executed (mangled names demangled roughly):")
for f in sorted(un):
    xs = sorted(x for x in un[f] if x not in hit)
    if xs:
        print(f.replace("/repo/", ""))
        for x in xs: print("    ", x[:160])
PY
