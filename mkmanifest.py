#!/usr/bin/env python3
"""Regenerates MANIFEST.json from plans.py + manifest_meta.py (kept in sync by hand-run: ./mkmanifest.py)."""
import json, subprocess, sys, os
ROOT = os.path.dirname(os.path.abspath(__file__))
sys.path.insert(0, ROOT)
from plans import PLANS
from manifest_meta import META, NOT_APPLICABLE, ENGINES, HOOK_COMMITS, NOTES
props = [json.loads(l) for l in open(os.path.join(ROOT, "properties.jsonl"))]
checks = []
for p in props:
    pid = p["id"]
    if pid not in PLANS or pid not in META:
        continue
    m = META[pid]
    checks.append({
        "property_id": pid,
        "quick_cmd": f"./check {pid} --tier quick",
        "thorough_cmd": f"./check {pid} --tier thorough",
        "evidence_file": f"/verif/evidence/{pid}.json",
        "replay_cmd_template": "./check replay {path}",
        "engine": m["engine"],
        "level_claimed": {"category": PLANS[pid]["level"], "text": m["level_text"], "design_ref": m["design_ref"]},
        "level_note": m["level_note"],
        "technique": m["technique"],
    })
claimed = {c["property_id"] for c in checks}
na = [{"property_id": p["id"], "reason": NOT_APPLICABLE.get(p["id"], "check not built yet (work in progress; see DESIGN.md)")} for p in props if p["id"] not in claimed]
man = {
    "version": 1,
    "setup_cmd": "./check build",
    "hooks": {"guard": "x86_64_verif", "enable": "RUSTFLAGS='--cfg x86_64_verif --check-cfg cfg(x86_64_verif)' (set by ./check for every harness build)",
              "baseline_off_cmd": "cd /repo && cargo test --workspace --no-fail-fast --offline",
              "source_commits": HOOK_COMMITS, "add_only": True},
    "engines": ENGINES,
    "checks": checks,
    "notes": NOTES,
    "not_applicable": na,
}
json.dump(man, open(os.path.join(ROOT, "MANIFEST.json"), "w"), indent=1)
print("claimed:", sorted(claimed), "not claimed:", [x["property_id"] for x in na])
