"""Per-property run plans for ./check: which harness flavours run, how many shards, and the text that goes
into the evidence file (rule, assumptions).  Flavours: debug (opt-level 1, overflow checks + debug assertions),
release (opt-level 3, no overflow checks), opt0 (opt-level 0: nothing inlined), miri, asan, valgrind (memcheck on
the release binary)."""

BOTH_Q = [{"flavor": "debug", "shards": 4}, {"flavor": "release", "shards": 4}]
# sanitizer passes of the paging engine (MappedPageTable / OffsetPageTable over the heap arena, every frame its own allocation)
MIRI_Q = [{"flavor": "miri", "shards": 1, "extra": {"histories": 2, "len": 12}, "tag": "miri-slice", "timeout": 1500}]
MIRI_T = [{"flavor": "miri", "shards": 12, "extra": {"histories": 4, "len": 30}, "tag": "miri", "timeout": 6000}]
VALGRIND_Q = [{"flavor": "valgrind", "shards": 2, "scale": 0.03, "extra": {"impl": "mapped"}, "tag": "memcheck"}]
VALGRIND_T = [{"flavor": "valgrind", "shards": 4, "scale": 0.002, "extra": {"impl": "mapped"}, "tag": "memcheck"}, {"flavor": "valgrind", "shards": 4, "scale": 0.002, "extra": {"impl": "offset"}, "tag": "memcheck"}]
ASAN_T = [{"flavor": "asan", "shards": 4, "scale": 0.015, "extra": {"impl": "mapped"}, "tag": "asan"}, {"flavor": "asan", "shards": 4, "scale": 0.015, "extra": {"impl": "offset"}, "tag": "asan"}]
BOTH_T = [{"flavor": "debug", "shards": 8}, {"flavor": "release", "shards": 8}]


def m32(scale, shards=4, timeout=3000, extra=None):
    """the pure properties once more on a 32-bit target (i686 under Miri): usize is 32 bits wide there, which is where the
    crate's own cfg(target_pointer_width) branches and every u64<->usize conversion behave differently"""
    return [{"flavor": "miri32", "shards": shards, "scale": scale, "tag": "i686", "timeout": timeout, "extra": extra or {}}]


COMMON_ASSUME = [
    "the harness is rebuilt from /repo's working tree with --cfg x86_64_verif; the monitors observe the real crate code",
    "verdict covers only the executions produced (sampled inputs; finite sub-spaces listed as exhaustive_subspaces are complete)",
]

PLANS = {
    "C03": {
        "level": "exploration",
        "rule": "boundary-biased u64 inputs (walking ones/zeros, 2^k+-d, the architectural edges 2^12..2^64 +-d, sign-extended and "
                "uniform values) to every address constructor, and random straight-line programs (5-50 ops) over a register file of "
                "VirtAddr/PhysAddr/Page/PhysFrame values using every safe address-returning operation; every returned address is "
                "checked by an independent predicate (bits 47..63 all equal / bits 52..63 clear). A case is one constructor input or "
                "one program op; distinct_nontrivial counts distinct (build profile, operation, outcome ok/none/panic, input class / "
                "address half) tuples.",
        "assumptions": COMMON_ASSUME + ["unsafe constructors (new_unsafe, from_start_address_unchecked) are outside the property"],
        "quick": BOTH_Q + m32(3e-06, 2, 800, {"progs": 40}), "thorough": BOTH_T + [{"flavor": "miri", "shards": 2, "scale": 3e-07, "tag": "miri-slice", "timeout": 3000}] + m32(3e-07, 8, 3000, {"progs": 120}),
    },
    "C04": {
        "level": "exploration",
        "rule": "independent shifts/masks (p_k = (va >> (12+9(k-1))) & 0x1ff, offset = va & 0xfff, inverse = sign_extend48 of the "
                "packed indices) against VirtAddr/Page index accessors, page_table_index(level), from_page_table_indices*, and the "
                "PageTableLevel helpers. Exhaustive: all u16 for the index/offset constructors, all 512^2 1GiB tuples, (thorough) all "
                "512^3 2MiB tuples, every 4KiB index position over all 512 values x 8^3 universe; plus random canonical addresses and "
                "index quadruples. distinct_nontrivial counts distinct (profile, direction, size, input class, half, p4 class) tuples.",
        "assumptions": COMMON_ASSUME,
        "quick": BOTH_Q + m32(1e-06, 1, 800), "thorough": BOTH_T + m32(1e-06),
    },
    "C05": {
        "level": "exploration",
        "rule": "u128 position model of the 2^48 canonical addresses (pos(a)=a or a-0xffff_0000_0000_0000) predicts "
                "Step::forward_checked/backward_checked/forward/steps_between for VirtAddr and Page<4K/2M/1G> through the real "
                "core::iter::Step trait; starts at 0, both gap edges, the top, huge-page edges and random; counts 0,1, distance-to-gap "
                "+-1, 2^47, 2^48-1, 2^48, 2^48+1, usize::MAX, ceil(2^64/SIZE)+-1, random; mutual-inverse checks. PageTableIndex: "
                "exhaustive 512 starts x counts 0..=1024 + big counts and all 512^2 pairs. distinct_nontrivial counts distinct "
                "(profile, type, half, count class, relation of count to gap distance, forward/backward success) tuples.",
        "assumptions": COMMON_ASSUME,
        "quick": BOTH_Q + m32(6e-05, 1, 800), "thorough": BOTH_T + m32(4e-06),
    },
    "C06": {
        "level": "exploration",
        "rule": "u128 rounding oracle for align_up/align_down/is_aligned of raw u64, VirtAddr (least/greatest canonical multiple for "
                "alignments <= 2^47) and PhysAddr (overflow limit 2^52), all 64 power-of-two alignments x boundary-biased addresses "
                "(at/just below/just above multiples, top multiple), through U = u8/u16/u32/u64; non-power-of-two alignments incl. 0 "
                "as the panic case; containing_address/from_start_address for pages and frames of the three sizes. "
                "distinct_nontrivial counts distinct (profile, type, alignment exponent or npot, address class, ok/panic) tuples.",
        "assumptions": COMMON_ASSUME + ["alignments above 2^47 on VirtAddr are only checked for canonicity (the property excludes them)"],
        "quick": BOTH_Q + m32(1e-04, 1, 800), "thorough": BOTH_T + m32(2e-06),
    },
    "C07": {
        "level": "exploration",
        "rule": "i128 oracle for +,-,+=,-= with u64 and for differences on VirtAddr, PhysAddr, Page<S>, PhysFrame<S> (operands near "
                "0, 2^47, 2^52, 2^64; offsets > 2^52 and products that wrap with small residues); a returned value must equal the "
                "exact result, a panic is always acceptable. Exclusive and inclusive page/frame ranges of the three sizes positioned "
                "at every edge (ending at the last page of each half / the last frame, starting at the first page), iterated item by "
                "item against start+i and compared with len()/size()/is_empty(); 2MiB->4KiB range conversion. Both build profiles. "
                "distinct_nontrivial counts distinct (profile, type, size, operand class, outcome exact/panic, range end class, "
                "length class) tuples.",
        "assumptions": COMMON_ASSUME + ["range lengths bounded by iteration time (quick <= 5000, thorough <= 10^6 items)"],
        "quick": BOTH_Q + m32(5e-04, 1, 800), "thorough": BOTH_T + m32(2e-05),
    },
    "C08": {
        "level": "exploration",
        "rule": "random sequences (1-12 ops) of set_addr/set_frame/set_flags/set_unused on a PageTableEntry with addresses from "
                "{0, max, 2^k, random} and flags from bits 0-11/52-63; after every op the raw u64 (read through a pointer cast) must "
                "equal shadow addr|flags and addr()/flags()/is_unused()/frame() must agree. PageTable: size/alignment 4096, pointer "
                "identity of all 512 slots through Index<usize>, Index<PageTableIndex>, iter, iter_mut, little-endian bytes at 8*i "
                "after writes through each path, is_empty/zero/new/clone/default on zero and garbage memory. distinct_nontrivial counts "
                "distinct (profile, op, resulting state class) tuples.",
        "assumptions": COMMON_ASSUME + ["flags restricted to bits 0-11 and 52-63 as the property states (bit 12 overlaps the address field)"],
        "quick": BOTH_Q + m32(2e-05, 1, 800), "thorough": BOTH_T + [{"flavor": "miri", "shards": 2, "scale": 2e-06, "tag": "miri-slice", "timeout": 3000}] + m32(2e-06, 2),
    },

    "C01": {
        "level": "exploration",
        "rule": "random call histories (20-200 calls) of map_to / map_to_with_table_flags / identity_map / unmap / update_flags / "
                "set_flags_p{4,3,2}_entry / translate_page / clean_up / clean_up_addr_range over the three page sizes, pages drawn "
                "from small collision universes of p4/p3/p2/p1 indices (nested regions, neighbours, both halves, first/last page), "
                "frames incl. 0, the last frame, decoy data frames and the root frame, hostile allocators, on MappedPageTable "
                "(arbitrary shuffled frame mapping), OffsetPageTable (sampled offsets) and RecursivePageTable (software MMU: the "
                "recursive addresses the real code dereferences fault and are resolved by a hardware-style walk of the simulated "
                "tables) over simulated physical memory. After EVERY "
                "call the raw table memory is dumped by an independent hardware-style walker and compared slot by slot with the "
                "reference model (tree equality decides all 2^48 addresses), and translate/translate_addr/translate_page are compared "
                "with the walker on a probe set. distinct_nontrivial counts distinct (build, implementation, operation<size>, state "
                "class the call was made in, outcome) tuples.",
        "assumptions": COMMON_ASSUME + ["leaf flags contain PRESENT, parent flags contain PRESENT and not HUGE_PAGE (as the property states); PAT_HUGE_PAGE (bit 12) is not used in leaf flags",
                                         "OffsetPageTable offsets and frame mappings are those a user process can realise (lower-half, 4 KiB aligned)",
                                         "RecursivePageTable runs under the software MMU (E5) with lower-half recursive indices whose 512 GiB region is free in the process; pages whose p4 index equals the recursive index are excluded",
                                         "Miri / ASan / valgrind passes cover MappedPageTable and OffsetPageTable on the heap arena (inline asm and the software MMU cannot run under them); a pass counts only if its positive controls were reported"],
        "quick": BOTH_Q + MIRI_Q, "thorough": BOTH_T + MIRI_T + ASAN_T + VALGRIND_T,
    },
    "C02": {
        "level": "fault_enumeration",
        "rule": "same histories as C01; the model classifies the state each call is made in (Unmapped, MappedSame, InsideLarger, "
                "CoversSmaller) and gives the documented outcome; after every Err the post-call dump must equal the pre-call tree "
                "except for tables created before the failure point (linked, all-zero) and requested parent flags. Fault "
                "enumeration: at EVERY map call of every history that needs k>=1 new tables the whole state (memory, model, "
                "allocator) is forked k times and the call re-run with the allocator failing request 1..k; the result must be "
                "FrameAllocationFailed, no request may follow the failed one, and no mapping may change. Extended-domain and "
                "corrupt-table histories (guard pages, disabled parents, links to tables declared huge pages with unaligned "
                "addresses) are judged without the model: every call that reports an error leaves all leaf-position entries of the "
                "raw hierarchy bit-identical. distinct_nontrivial counts "
                "distinct (build, implementation, operation<size>, state class, outcome) and (operation, failing request j of k) tuples.",
        "assumptions": COMMON_ASSUME + ["states the documentation does not define (a huge-size call on a slot that holds a page table) accept any Err without change and reject Ok"],
        "quick": BOTH_Q, "thorough": BOTH_T + MIRI_T,
    },
    "C09": {
        "level": "exploration",
        "rule": "every step of the C01/C02 histories over physical memory pre-filled with non-zero garbage (half of the garbage words "
                "look PRESENT): byte-wise before/after diff of ALL frames (tables, decoy data frames that are targets of live "
                "mappings, free and freed re-poisoned frames) - only frames that are tables of the hierarchy may change; new tables "
                "must be all-zero apart from the expected entry (dump vs model); allocator log: requests == missing tables, none by "
                "non-map operations, deallocation only by clean-up, every obtained frame linked; frame_to_pointer only for live "
                "tables. Sanitizer passes (Miri / ASan / valgrind, see runs) repeat the histories with every frame a separate "
                "allocation. distinct_nontrivial as C01.",
        "assumptions": COMMON_ASSUME + ["a stray access that stays inside another live table frame is caught by the model comparison, one that leaves the frame by the sanitizer",
                                         "a sanitizer pass counts only if its positive controls (1-byte read past / before / after free of a frame-like allocation) were reported by the tool in the same build"],
        "quick": BOTH_Q + [{"flavor": "opt0", "shards": 2, "scale": 0.4, "tag": "in-callback"}] + MIRI_Q + VALGRIND_Q,
        "thorough": BOTH_T + [{"flavor": "opt0", "shards": 8, "scale": 0.03, "tag": "in-callback"}] + MIRI_T + ASAN_T + VALGRIND_T,
    },
    "C10": {
        "level": "exploration",
        "rule": "hierarchies reached by C01 histories (incl. empty tables left by unmap and by failed maps) x clean_up and "
                "clean_up_addr_range with ranges: empty (start > end), single page, table-aligned, unaligned, several tables of each "
                "level, across the gap, ending at the last page, whole space. Clauses checked one by one on the deallocator log and "
                "the raw dumps before/after: freed frame is a level 1-3 table that overlaps the range, held only links to tables "
                "freed by the same call, is unlinked afterwards, freed once, never the root; no empty table wholly inside the range "
                "left; leaves identical; tables outside the range bit-identical; a second identical clean-up frees nothing. "
                "distinct_nontrivial counts distinct (build, implementation, operation, number freed class, range class) tuples plus the C01 classes.",
        "assumptions": COMMON_ASSUME + ["'unlinked and empty at that moment' is checked after the call from the deallocation order and the pre/post dumps in every flavour, and additionally inside the deallocator callback (raw volatile walk of all live tables) in the opt-level-0 flavour only: an optimising build may legally sink the mapper's `entry.set_unused()` (a store through `&mut`) below the deallocator call"],
        "quick": BOTH_Q + [{"flavor": "opt0", "shards": 2, "scale": 0.5, "tag": "in-callback"}],
        "thorough": BOTH_T + [{"flavor": "opt0", "shards": 8, "scale": 0.04, "tag": "in-callback"}] + MIRI_T + VALGRIND_T,
    },

    "C17": {
        "level": "exploration",
        "rule": "trap-and-emulate: cli/sti/hlt executed by the real interrupts::* functions fault in ring 3, are decoded and applied "
                "to an emulated IF that is mirrored into the cfg-gated RFLAGS overlay (hook H1). Random nesting trees of "
                "without_interrupts (depth <= 12, branching <= 3, up to 10^4 nodes) with closures returning unique values, for both "
                "initial IF states: body ran exactly once with IF=0, IF afterwards = IF before, result passed through, event log = "
                "exactly [cli, sti] around the outermost call when IF was 1 and empty when IF was 0; enable/disable = one sti/cli and "
                "an otherwise unchanged register file; are_enabled = IF; enable_and_hlt: at the sti trap the next byte is hlt and the "
                "two events are consecutive. distinct_nontrivial counts distinct (profile, initial IF, tree depth, node-count class) tuples.",
        "assumptions": COMMON_ASSUME + ["the monitor sees instructions and operands, not interrupt delivery; closures leave the flag as they found it (as the property states)"],
        "quick": [{"flavor": "debug", "shards": 2}, {"flavor": "release", "shards": 2}, {"flavor": "opt0", "shards": 2}],
        "thorough": [{"flavor": "debug", "shards": 6}, {"flavor": "release", "shards": 6}, {"flavor": "opt0", "shards": 4}],
    },
    "C18": {
        "level": "exploration",
        "rule": "trap-and-emulate: every in/out executed by the real Port/PortReadOnly/PortWriteOnly objects faults in ring 3; the "
                "monitor decodes opcode + operand-size prefix (width), DX (port), AL/AX/EAX (value) and supplies a fresh PRNG value "
                "to each `in`. Exhaustive over all 65536 port numbers x 3 widths x 3 access kinds (+ clones) with one value each, "
                "plus random (port, value) pairs incl. extreme values; exactly one event per call, register form only (string I/O "
                "= memory access = violation). PartialEq/Clone checked on the same pairs. distinct_nontrivial counts distinct "
                "(profile, width, access kind, port class) tuples.",
        "assumptions": COMMON_ASSUME + ["the device model stands in for hardware: the value 'the device supplied' is the value the monitor put into AL/AX/EAX"],
        "exhaustive_whole": False,
        "quick": [{"flavor": "debug", "shards": 4}, {"flavor": "release", "shards": 4}, {"flavor": "opt0", "shards": 4}],
        "thorough": [{"flavor": "debug", "shards": 6}, {"flavor": "release", "shards": 6}, {"flavor": "opt0", "shards": 4}],
    },

    "C11": {
        "level": "exploration",
        "rule": "(a) tokens returned by real map_to/unmap/update_flags calls on a MappedPageTable (all three sizes): page() = argument "
                "page; (b) MapperFlush::flush under the trap monitor: exactly one invlpg whose effective address (ModRM + saved "
                "GPRs) = page start; MapperFlushAll::flush_all / tlb::flush_all: mov r,cr3 then mov cr3,r with the written value = "
                "the emulated current CR3 (prior contents with and without PCID/PWT/PCD low bits); (c) tlb::flush on boundary-biased "
                "canonical addresses; (d) flush_pcid: all 4096 PCIDs x 4 kinds exhaustively - register operand = kind, 16 descriptor "
                "bytes = {pcid, address}, reserved bits zero; (e) InvlpgbFlushBuilder via hook H2: ranges of 4K/2M pages reaching "
                "and spanning the gap and the top x processor maxima {0,1,2,3,7,255,4095,65535,random} x all option combinations: "
                "every trapped invlpgb has count <= max, stride bit, option/PCID/ASID fields as requested, address inside the "
                "range; coverage judged with the architectural reading (count+1 pages), gap crossing with the minimal reading; "
                "requests <= pages+1. distinct_nontrivial counts distinct (profile, operation, address/CR3/range class, max class, "
                "option combination) tuples.",
        "assumptions": COMMON_ASSUME + ["'invalidates exactly that page' means 'executes invlpg with exactly that address'", "whether hardware accepts an invlpgb whose extra (count+1-th) page is non-canonical is not decidable here"],
        "quick": [{"flavor": "debug", "shards": 4}, {"flavor": "release", "shards": 4}], "thorough": BOTH_T,
    },
    "C12": {
        "level": "exploration",
        "rule": "independent decoder of the 16-byte gate applied to the RAW BYTES of the table: named fields and Index<u8> (all 256 "
                "vectors: reference at 16*v or panic per a manual-derived table), every RangeBounds form the crate implements Index "
                "for plus slice/slice_mut over (thorough) all 65536 (start,end) pairs / (quick) an edge grid + 700 random pairs: "
                "slice pointer and length or panic (start < 32 or reversed); set_handler_addr on boundary-biased canonical "
                "addresses through index/slice paths: offset fields = address, selector = CS read by the harness, P=1, type 0xE, "
                "DPL 0, IST 0, reserved 0, no byte of another vector changed; random option-setter programs vs a shadow of the five "
                "fields; new/missing/reset = non-present gates; set_handler_fn for all five handler types; load_unsafe -> one trapped "
                "lidt with limit 4095 and base = table address. distinct_nontrivial counts distinct (profile, access form/class, "
                "address class, resulting option state) tuples.",
        "assumptions": COMMON_ASSUME + ["IST indices 0..=6 as the property states"],
        "quick": [{"flavor": "debug", "shards": 4}, {"flavor": "release", "shards": 4}], "thorough": BOTH_T + [{"flavor": "miri", "shards": 1, "tag": "miri-slice", "timeout": 3000}],
    },
    "C14": {
        "level": "exploration",
        "rule": "random append histories of arbitrary user/system descriptors (all 64-bit patterns, all DPLs) until the table is full "
                "and beyond, for MAX in {1,2,3,8,9,8192}, against a shadow Vec<u64>: after each append entries() raw = shadow, "
                "selector = (first slot << 3) | DPL with TI=0, limit = 8*len-1; an append that does not fit panics and leaves the "
                "table unchanged; from_raw_entries on slices of length 0..MAX+2 (panic exactly for empty / non-zero first / too "
                "long); clone; load_unsafe -> one trapped lgdt with (limit(), address of slot 0). distinct_nontrivial counts distinct "
                "(profile, MAX, descriptor kind, DPL, outcome, free slots at panic) tuples.",
        "assumptions": COMMON_ASSUME,
        "quick": [{"flavor": "debug", "shards": 4}, {"flavor": "release", "shards": 4}], "thorough": BOTH_T,
    },
    "C15": {
        "level": "exploration",
        "rule": "architectural decoder of the 16-byte system descriptor applied to tss_segment_unchecked(p) for walking-one, "
                "walking-zero, 2^k-1, architectural-edge and boundary-biased random 64-bit pointers (never dereferenced): base = p, "
                "limit 0x67, type 0b1001, S=0, DPL 0, P=1, AVL/L/DB/G = 0, upper dword of the second word = 0; the six predefined "
                "descriptors decode to kind/L/D/DPL/P/limit/granularity their names state; dpl() = bits 45-46 for random "
                "descriptors; TSS and DescriptorTablePointer field offsets by pointer arithmetic and raw little-endian bytes. "
                "distinct_nontrivial counts distinct (profile, pointer class, upper/lower pointer byte classes, preset, layout item) tuples.",
        "assumptions": COMMON_ASSUME,
        "quick": [{"flavor": "debug", "shards": 4}, {"flavor": "release", "shards": 4}], "thorough": BOTH_T,
    },
    "C16": {
        "level": "exploration",
        "rule": "trap-and-emulate: every mov crN/drN, rdmsr/wrmsr, xsetbv, mov sreg, retfq, ltr, swapgs executed by the real wrappers "
                "faults in ring 3; the monitor decodes register number (ModRM.reg+REX.R / ECX) and operands (full GPR, EDX:EAX) and "
                "applies them to an emulated register file. Per wrapper (Cr0/2/3/4, Dr0-3/6/7, XCr0, Msr, Efer, FsBase, GsBase, "
                "KernelGsBase, Star, LStar, SFMask, UCet, SCet, Pat, ApicBase, segment selectors/bases, load_tss, GS::swap, rflags, "
                "mxcsr): boundary-biased prior register contents x argument values; event sequence must touch only the named "
                "register with exactly one write as last access; typed write = (prior & !modelled) | fields, raw write exact, typed "
                "read = modelled bits, update = read-modify-write, write->read round trips, documented rejections before any write "
                "event. Instructions that run in ring 3 (xgetbv, mov r,sreg, rd/wr{fs,gs}base, pushfq/popfq, st/ldmxcsr) are compared "
                "with the harness's own instruction on the real CPU. distinct_nontrivial counts distinct (profile, wrapper, "
                "prior-content class, argument class) tuples.",
        "assumptions": COMMON_ASSUME + ["'modelled bits' = the bits the crate's flag type defines (their architectural correctness is C19)",
                                         "xgetbv/rdfsbase/wrfsbase do not trap: XCR0 prior contents = host value, FS base only re-written with its current value; pushfq/popfq are emulated / intercepted in single-step mode (chosen prior RFLAGS incl. reserved bits, IF, IOPL; the popfq operand is recorded, not executed) and additionally exercised natively on the ID flag",
                                         "segment set_reg is exercised only with selectors that are guaranteed to fault (beyond the GDT limit / empty LDT)",
                                         "Cr3::write_raw is given 12-bit values; Star::read is checked on contents whose selector sums do not overflow u16"],
        "quick": [{"flavor": "debug", "shards": 4}, {"flavor": "release", "shards": 4}], "thorough": BOTH_T,
    },

    "C19": {
        "level": "exploration",
        "rule": "an independently written table (transcribed from the Intel SDM / AMD APM, kept in harness/src/props/c19.rs, never "
                "derived from the crate) of every public flag, enum value, MSR number, page size and preset: name -> value, compared "
                "with .bits() / `as u8` / the ECX of a trapped rdmsr at run time (finite, exhaustive). Where the bit can be exercised "
                "in user mode the real CPU is a second oracle: stc/clc/xor/test/add/std then pushfq for CF/PF/AF/ZF/SF/OF/DF/IF; "
                "MXCSR status bits after real 0/0, 1/0, overflow, underflow, inexact and denormal operations, rounding control by its "
                "effect on cvtss2si(+-1.5), FTZ/DAZ by their effect on denormals. Codecs exhaustively: SegmentSelector (all u16 x 4 "
                "RPL), PrivilegeLevel::from_u16 and Pcid::new (all u16), ExceptionVector/PatMemoryType/DebugAddressRegisterNumber (all "
                "u8), Dr7Value (4 registers x 4 conditions x 4 sizes x flag subsets; each setter changes only its 2 bits), "
                "breakpoint condition/size, SelectorErrorCode (all 16-bit codes + wide values). distinct_nontrivial counts distinct "
                "(profile, constant name / codec) tuples.",
        "assumptions": COMMON_ASSUME + ["the manual-derived table itself is trusted (it was written from the manuals, then compared: all ~236 entries agree on the unchanged tree)"],
        "exhaustive_whole": True,
        "quick": [{"flavor": "debug", "shards": 1}, {"flavor": "release", "shards": 1}],
        "thorough": [{"flavor": "debug", "shards": 2}, {"flavor": "release", "shards": 2}],
    },

    "C13": {
        "level": "exploration",
        "rule": "set_general_handler!(idt, h, range) with RUNTIME ranges (one macro expansion per range form: lo..=hi, lo..hi, lo.., "
                "literal index, full table) on a junk-filled IDT (random handlers on plain vectors, marker bytes in the reserved "
                "entries): for (thorough) all 65536 (lo,hi) pairs / (quick) all pairs touching an architectural edge + a stride, "
                "the present bit / gate type / selector / stub address of all 256 RAW entries must be 'present with that "
                "expansion's stub for v' iff v in range and not reserved, and every other entry byte-identical. Then simulated "
                "interrupt delivery (E6): switch to a scratch stack, push SS, RSP, RFLAGS, CS, RIP (+ error code on the ten "
                "error-code vectors) as the CPU does, jump to the handler address decoded from the raw IDT bytes; the real "
                "extern \"x86-interrupt\" stub runs natively and returns with its own iretq. All 248 non-reserved vectors x several "
                "frames (random arithmetic/DF/ID flags, random aligned and unaligned RSP values, random error codes) x every "
                "expansion: general handler called exactly once with index v, the pushed frame, Some(err) iff the vector defines "
                "one; returning vectors resume at the pushed RIP with the frame's RSP and flags; diverging vectors (8, 18) do not "
                "return. InterruptStackFrameValue::iretq executed natively lands on the frame's RIP/RSP/flags. distinct_nontrivial "
                "counts distinct (profile, vector, vector kind, DF, RSP alignment) and installation-form tuples.",
        "assumptions": COMMON_ASSUME + ["IF, IOPL, TF, AC, VM/RF cannot be varied under a native ring-3 iretq; CS/SS are the process's own selectors",
                                         "the general handler of the harness reads the frame field by field (volatile): with SSE enabled LLVM otherwise emits 16-byte aligned loads on the 8-byte aligned hardware frame"],
        "quick": [{"flavor": "debug", "shards": 2}, {"flavor": "release", "shards": 2}, {"flavor": "opt0", "shards": 2}],
        "thorough": [{"flavor": "debug", "shards": 6}, {"flavor": "release", "shards": 6}, {"flavor": "opt0", "shards": 4}],
    },

    "C20": {
        "level": "exploration",
        "rule": "(a) hook H3 exposes the private p3_page/p2_page/p1_page: for ALL 512 recursive indices (incl. the upper half that a "
                "user process cannot map) x all 512 p4 x {0,1,255,256,511}^2 (p3,p2) (thorough: x all 512^2 (p4,p3)) x three page "
                "sizes + random quintuples, the computed table page must equal sign_extend48 of R repeated 3/2/1 times followed by "
                "the page's upper indices; (b) live: random call histories on the real RecursivePageTable under the software MMU "
                "(lower-half R sampled among the free 512 GiB regions of the process): every address that faults during an "
                "operation must be the recursive address of a table of the hierarchy before or after the call, and of a table the "
                "call has business with (on the path of the operation's page; overlapping the range of a clean-up); (c) "
                "RecursivePageTable::new on a reference at [R,R,R,R] under an emulated CR3: slot contents {self+P, self+P+other "
                "flags, self without P, other frame, zero} x CR3 {that frame with arbitrary low 12 bits, other frames} -> Ok / "
                "NotActive; near-recursive addresses (one index differing at each position) -> NotRecursive; after Ok the first "
                "access of the mapper goes to [R,R,R,R]. distinct_nontrivial counts distinct (profile, part, R class, slot kind, "
                "CR3 kind, result) tuples plus the recursive-history classes.",
        "assumptions": COMMON_ASSUME + ["a reference at an upper-half or R=0 recursive address cannot exist in a Linux user process: new() and live operation use lower-half indices only, the upper half is covered by (a)"],
        "quick": [{"flavor": "debug", "shards": 4}, {"flavor": "release", "shards": 4}],
        "thorough": BOTH_T,
    },
}
