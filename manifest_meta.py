"""Hand-written per-check texts for MANIFEST.json (see mkmanifest.py)."""
PURE_NOTE = ("Trusted: the independent oracle in the harness (a few lines of u128/i128 or shift/mask arithmetic per function), the "
             "boundary-biased generator, cargo/rustc building /repo's working tree. Sampled inputs except where a sub-space is listed "
             "as exhaustive; both build profiles (overflow-checking and non-checking) are run.")
META = {
 "C03": {"engine": "vx-pure", "design_ref": "DESIGN.md §6 C03", "technique": "runtime invariant monitor (validity predicate) over generated inputs and random operation programs, debug+release builds",
         "level_text": "Exploration: every address value returned by any safe API call in millions of generated constructor inputs and random operation programs is checked by an independent validity predicate; constructors are additionally checked for exactness. A violation needs a single bad value to be observed, so wide boundary-biased sampling in both build profiles is the right level; no exhaustive claim over 2^64.",
         "level_note": PURE_NOTE},
 "C04": {"engine": "vx-pure", "design_ref": "DESIGN.md §6 C04", "technique": "reference-model monitor (independent shift/mask oracle), exhaustive finite sub-spaces + random sampling",
         "level_text": "Exploration with exhaustive sub-spaces: index/offset constructors over all u16, all 512^2 1GiB tuples, all 512^3 2MiB tuples (thorough), every 4KiB index position over all 512 values; the remaining 4KiB tuple space and the canonical addresses are sampled.",
         "level_note": PURE_NOTE},
 "C05": {"engine": "vx-pure", "design_ref": "DESIGN.md §6 C05", "technique": "reference-model monitor (u128 position model) through the real core::iter::Step trait",
         "level_text": "Exploration: each Step call on VirtAddr/Page/PageTableIndex is compared with a u128 position model of the contiguous canonical space, on starts/counts concentrated at the gap, the top, multiplication-overflow and usize extremes; PageTableIndex is enumerated exhaustively.",
         "level_note": PURE_NOTE},
 "C06": {"engine": "vx-pure", "design_ref": "DESIGN.md §6 C06", "technique": "reference-model monitor (u128 rounding oracle), panic-vs-return judged per call",
         "level_text": "Exploration: all 64 power-of-two alignments x boundary-biased addresses (and non-power-of-two alignments as the panic case) for raw, virtual and physical addresses, plus containment for pages/frames of the three sizes; return value or panic judged against u128 rounding.",
         "level_note": PURE_NOTE},
 "C07": {"engine": "vx-pure", "design_ref": "DESIGN.md §6 C07", "technique": "reference-model monitor (i128 arithmetic oracle; item-by-item range iteration), mandatory in debug and release builds",
         "level_text": "Exploration in both build profiles: operator results are compared with exact i128 arithmetic (a panic is always acceptable, a different value never), and ranges positioned at every architectural edge are iterated item by item and compared with len()/size(). The defect class only exists without overflow checks, hence both profiles.",
         "level_note": PURE_NOTE},
 "C08": {"engine": "vx-pure", "design_ref": "DESIGN.md §6 C08", "technique": "shadow-state monitor over raw entry/table bytes (pointer-cast observation), 512 slots x access paths exhaustive",
         "level_text": "Exploration with an exhaustive slot dimension: random setter sequences against a shadow (addr, flags) pair observed through the raw u64, and all 512 slots through every access path by pointer identity and little-endian byte position.",
         "level_note": PURE_NOTE},
}
PAGING_NOTE = ("Trusted: the ~400-line reference model (refmodel.rs), the SDM-style raw-memory walker (hwwalk.rs), the simulated physical memory "
               "and its allocator (simphys.rs). Sampled histories, not all; page/frame universes and offsets as stated in the evidence rule.")
META.update({
 "C01": {"engine": "vx-paging", "design_ref": "DESIGN.md §6 C01", "technique": "reference-model monitor + independent hardware-style walk of raw table memory after every call of random histories; Miri/ASan/valgrind on the same workload",
         "level_text": "Exploration: tens of thousands (quick) to millions (thorough) of mapper calls in random order-dependent histories, each followed by a full dump of the raw tables that is compared with the model (deciding every virtual address at once) and by probe-set agreement of translate/translate_addr/translate_page with the walker.",
         "level_note": PAGING_NOTE},
 "C02": {"engine": "vx-paging", "design_ref": "DESIGN.md §6 C02", "technique": "state-classifying reference model + post-error dump diff; allocator fault injection enumerating every failure point of every map call by state forking",
         "level_text": "Fault enumeration: for every map call of every explored history that needs k new tables, all k allocator failure points are enumerated by forking the complete state (memory snapshot, model, allocator) - not sampled; the histories themselves are sampled.",
         "level_note": PAGING_NOTE},
 "C09": {"engine": "vx-paging", "design_ref": "DESIGN.md §6 C09", "technique": "byte-wise before/after diff of all simulated physical memory + allocator/deallocator/frame_to_pointer log monitors; Miri, ASan, valgrind memcheck passes",
         "level_text": "Exploration: every call of the histories is bracketed by a snapshot and a byte diff of all frames and judged against the allocator log; memory-safety tools run the same workload with each frame a separate allocation.",
         "level_note": PAGING_NOTE},
 "C10": {"engine": "vx-paging", "design_ref": "DESIGN.md §6 C10", "technique": "clause-by-clause offline checker over the deallocator event log and raw dumps before/after each clean-up; idempotence re-run",
         "level_text": "Exploration: thousands (quick) to a million (thorough) clean-ups on hierarchies produced by random histories, each judged clause by clause (not against a second implementation of the algorithm).",
         "level_note": PAGING_NOTE},
})
TRAP_NOTE = ("Trusted: the instruction decoder / emulated register file of the trap monitor (trapemu.rs, forms listed in DESIGN.md Appendix A), "
             "Linux delivering #GP/#UD as SIGSEGV/SIGILL with the faulting RIP and writable GPRs. The monitor observes the instruction and its operands, "
             "not micro-architectural effects.")
META.update({
 "C17": {"engine": "vx-trap", "design_ref": "DESIGN.md §6 C17", "technique": "trap-and-emulate monitor of cli/sti/hlt with emulated IF (hook H1 overlay) + event-grammar checker over random nesting trees",
         "level_text": "Exploration: thousands to millions of random nesting trees in both initial flag states and both build profiles; each run is judged on the emulated flag around every closure and on the exact trapped instruction sequence.",
         "level_note": TRAP_NOTE},
 "C18": {"engine": "vx-trap", "design_ref": "DESIGN.md §6 C18", "technique": "trap-and-emulate monitor of in/out (opcode, DX, AL/AX/EAX) with a PRNG device model; ports x widths x access kinds exhaustive",
         "level_text": "Exploration, exhaustive in the port, width and access-kind dimensions (all 65536 x 3 x 3 with one value each); values are sampled.",
         "level_note": TRAP_NOTE},
})
META.update({
 "C11": {"engine": "vx-trap", "design_ref": "DESIGN.md §6 C11", "technique": "trap-and-emulate monitor of invlpg / mov cr3 / invpcid / invlpgb / tlbsync operands; token monitor on real mapper calls; broadcast builder driven through hook H2 with a coverage/gap checker over the request log",
         "level_text": "Exploration (PCID x kind exhaustive): operands of every trapped flush instruction are compared with the arguments; for the broadcast builder the whole request sequence of each case is checked for coverage, per-request bounds, option fields and gap crossing.",
         "level_note": TRAP_NOTE},
 "C12": {"engine": "vx-trap", "design_ref": "DESIGN.md §6 C12", "technique": "byte-level gate decoder over the raw IDT memory + shadow-state monitor for option setters + trapped lidt operand; vectors and range pairs exhaustive",
         "level_text": "Exploration with exhaustive vector and (thorough) range-pair dimensions; handler addresses and setter programs are sampled.",
         "level_note": TRAP_NOTE},
 "C14": {"engine": "vx-trap", "design_ref": "DESIGN.md §6 C14", "technique": "shadow-vector monitor over random append histories for several const capacities + trapped lgdt operand",
         "level_text": "Exploration: random append histories driven past capacity for six capacities, every step compared with a shadow vector; descriptors are arbitrary 64-bit patterns.",
         "level_note": TRAP_NOTE},
 "C15": {"engine": "vx-pure", "design_ref": "DESIGN.md §6 C15", "technique": "architectural descriptor decoder as oracle over generated pointers; layout measured by pointer arithmetic and raw bytes",
         "level_text": "Exploration: the TSS descriptor is a pure function of the pointer; walking bits are enumerated for all 64 positions and 10^6-10^8 boundary-biased pointers are sampled; presets and layouts are finite and checked completely.",
         "level_note": PURE_NOTE},
 "C16": {"engine": "vx-trap", "design_ref": "DESIGN.md §6 C16 + Appendix B", "technique": "trap-and-emulate monitor with an emulated register file (per-wrapper contracts on event sequence, written value and round trip); real CPU as oracle for instructions that run in ring 3",
         "level_text": "Exploration: hundreds of thousands (quick) to 10^8 (thorough) wrapper calls with boundary-biased prior register contents and arguments, each judged on the exact trapped instruction sequence and the emulated register afterwards.",
         "level_note": TRAP_NOTE},
})
META.update({
 "C19": {"engine": "vx-pure", "design_ref": "DESIGN.md §6 C19", "technique": "table-driven monitor (manual-transcribed constants vs runtime values), real CPU as second oracle for RFLAGS/MXCSR bits, exhaustive codec enumeration",
         "level_text": "Exploration that is exhaustive over its finite domain: every public constant (~236) is compared with a manual-derived table, user-mode-observable bits are cross-checked against the real CPU, and every small codec is enumerated over its whole input type.",
         "level_note": PURE_NOTE},
})
META.update({
 "C13": {"engine": "vx-irqsim", "design_ref": "DESIGN.md §6 C13", "technique": "raw-byte IDT diff over all range installations + simulated interrupt delivery into the real x86-interrupt stubs (hardware-format frame on a scratch stack, native iretq) with an observing general handler",
         "level_text": "Exploration, exhaustive over vectors and (thorough) over all (lo,hi) range pairs; frame contents and error codes are sampled. The stubs and iretq run natively on the real CPU in ring 3.",
         "level_note": "Trusted: the 60-line delivery trampoline (irqsim.rs) that builds the frame exactly as SDM vol.3 6.14 describes, the raw-byte gate decoder. Limits: only same-privilege delivery, flags restricted to arithmetic/DF/ID bits."},
})
META.update({
 "C20": {"engine": "vx-paging", "design_ref": "DESIGN.md §6 C20", "technique": "pure-function monitor through hook H3 (all 512 indices) + software-MMU fault-address monitor on live RecursivePageTable histories + constructor monitor under an emulated CR3",
         "level_text": "Exploration with exhaustive index dimensions: (R,p4) exhaustive (thorough: (R,p4,p3)); the live part observes the addresses the real code dereferences in thousands of operations; the constructor is driven through every slot/CR3 class.",
         "level_note": PAGING_NOTE + " Plus: the software MMU (softmmu.rs) and the trap monitor (emulated CR3)."},
})
NOT_APPLICABLE = {}
ENGINES = [
 {"name": "vx-pure", "path": "harness/src/props/c03.rs..c08.rs, harness/src/gen.rs", "serves_properties": ["C03", "C04", "C05", "C06", "C07", "C08", "C15", "C19"],
  "kind_free_text": "boundary-biased generators + independent arithmetic oracles judging every call of the real crate functions, in overflow-checking and non-checking builds"},
]
ENGINES.append({"name": "vx-paging", "path": "harness/src/props/paging.rs, c20.rs, harness/src/{simphys,hwwalk,refmodel,softmmu}.rs", "serves_properties": ["C01", "C02", "C09", "C10", "C20"],
  "kind_free_text": "real mapper code over simulated physical memory; reference model + raw-memory walker + byte diff + allocator log after every call; fault injection by state forking"})
ENGINES.append({"name": "vx-trap", "path": "harness/src/trapemu.rs, harness/src/props/c17.rs, c18.rs", "serves_properties": ["C11", "C12", "C14", "C16", "C17", "C18"],
  "kind_free_text": "SIGSEGV/SIGILL trap-and-emulate monitor: decodes the privileged instruction the crate really executed, logs operands, applies it to an emulated register file, resumes"})
ENGINES.append({"name": "vx-irqsim", "path": "harness/src/irqsim.rs, harness/src/props/c13.rs", "serves_properties": ["C13"],
  "kind_free_text": "simulated interrupt delivery in ring 3: hardware-format stack frame, jump into the installed stub, native iretq back; observing general handler"})
HOOK_COMMITS = ["fa1ff97", "dc6676e", "2bec2c6", "d096323"]
NOTES = ("Runtime monitoring and sanitizers. ./check <ID> rebuilds the harness crate (harness/, binary vx) against /repo's working tree in "
         "two profiles, runs sharded monitor processes, filters known findings (known_findings.json) and writes evidence/<ID>.json. "
         "Exit 0 held / 1 VIOLATION / 2 INCONCLUSIVE (machinery problem, never reported as violation).")
